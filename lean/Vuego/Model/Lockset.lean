/-
Lock discipline model for C09.
`Access` is a row of the access table the extractor regenerates from the source (Vuego/Generated/Locks.lean).
The second half is an abstract RW-lock machine: threads acquire/release named locks in read or write mode; the machine only takes
steps a sync.RWMutex allows. Its invariant (a writer excludes everyone else) is proved for every trace in Props/C09.
-/
namespace Vuego.Lockset

structure Access where
  var : String
  fn : String
  write : Bool
  lock : String
  excl : Bool
  deriving Repr, DecidableEq

/-- two accesses conflict: same variable, at least one writes -/
def conflict (a b : Access) : Bool := a.var == b.var && (a.write || b.write)

/-- both are made under one common lock, every writer holding it exclusively -/
def protectedPair (a b : Access) : Bool :=
  a.lock != "" && a.lock == b.lock && (!a.write || a.excl) && (!b.write || b.excl)

/-- the discipline: outside the set-up functions, every conflicting pair is protected -/
def disciplined (setup : List String) (t : List Access) : Bool :=
  t.all fun a => t.all fun b => setup.contains a.fn || setup.contains b.fn || !conflict a b || protectedPair a b

/-- variables written at all outside set-up (the ones for which the discipline says something) -/
def writtenVars (setup : List String) (t : List Access) : List String :=
  ((t.filter fun a => a.write && !setup.contains a.fn).map (·.var)).eraseDups

/-! the RW-lock machine -/

inductive Mode | r | w
  deriving DecidableEq, Repr

inductive Ev where
  | acq (t : Nat) (l : String) (m : Mode)
  | rel (t : Nat) (l : String)
  deriving Repr

/-- holders of each lock: (thread, mode) -/
abbrev LState := String → List (Nat × Mode)

def LState.init : LState := fun _ => []

/-- what sync.RWMutex permits: a write acquisition needs no holder at all, a read acquisition needs no writer -/
def enabled (s : LState) : Ev → Prop
  | .acq _ l .w => s l = []
  | .acq _ l .r => ∀ h ∈ s l, h.2 = .r
  | .rel _ _ => True

def apply (s : LState) : Ev → LState
  | .acq t l m => fun l' => if l' = l then (t, m) :: s l else s l'
  | .rel t l => fun l' => if l' = l then (s l).filter (fun h => h.1 != t) else s l'

/-- a trace the lock permits, from a given state -/
def Valid : LState → List Ev → Prop
  | _, [] => True
  | s, e :: r => enabled s e ∧ Valid (apply s e) r

def run (s : LState) (tr : List Ev) : LState := tr.foldl apply s

end Vuego.Lockset
