/-
Model of the layout machinery: template.Render's dispatch (template_render.go), the layout loop and resolveLayoutPath
(template_layout.go). The engine (rendering one file with the previous result as `content`) is a parameter `renderLink`;
`layoutOf f` is what `Get("layout")` yields after `Load(f).Fill(data)` ("" when none); `exists` is Loader.Stat.
-/
import Vuego.Model.Stack
import Vuego.Generated.Consts
namespace Vuego.Layout
open Go Vuego

structure LWorld (α : Type) where
  layoutOf : Str → Str
  fileExists : Str → Bool
  renderLink : Str → Option α → Res α      -- render file `f` with `content` = the previous link's output (none for the page)

def sBase : Str := "layouts/base.vuego".toList
def sExt : Str := ".vuego".toList

/-- `filepath.Dir` for the slash-separated names the loader uses ("." when there is no directory part) -/
def dirOf (p : Str) : Str :=
  match (p.reverse.dropWhile (· != '/')).drop 1 with
  | [] => ['.']
  | d => d.reverse

/-- `filepath.Clean` for slash-separated relative names: empty and "." elements dropped, ".." cancels the element before it -/
def cleanPath (p : Str) : Str :=
  let parts := (splitChar '/' p).foldl (fun (acc : List Str) (e : Str) =>
    if e == [] || e == ['.'] then acc
    else if e == ['.', '.'] then (match acc.reverse with
      | last :: before => if last == ['.', '.'] then acc ++ [e] else before.reverse
      | [] => [e])
    else acc ++ [e]) []
  match parts with
  | [] => ['.']
  | x :: r => r.foldl (fun a e => a ++ '/' :: e) x

/-- `filepath.Join(dir, name)` -/
def joinPath (dir name : Str) : Str := cleanPath (dir ++ '/' :: name)

/-- `resolveLayoutPath`: relative to the current file first (as written when it ends in .vuego, then with the extension added), else layouts/ -/
def resolveLayoutPath {α : Type} (W : LWorld α) (layout cur : Str) : Str :=
  let dir := dirOf cur
  if hasSuffix layout sExt && W.fileExists (joinPath dir layout) then joinPath dir layout
  else if W.fileExists (joinPath dir (layout ++ sExt)) then joinPath dir (layout ++ sExt)
  else "layouts/".toList ++ layout ++ sExt

/-- the loop of `template.layout`: `fuel` is the remaining number of links (`maxDepth - depth`) -/
def layoutLoop {α : Type} (W : LWorld α) : Nat → Str → Bool → Option α → Res α
  | 0, _, _, _ => .err "layout-depth" "layout chain depth exceeded maximum".toList
  | n + 1, file, first, content =>
    match W.renderLink file content with
    | .ok html =>
      if W.layoutOf file == [] then
        if first then layoutLoop W n sBase false (some html) else .ok html
      else layoutLoop W n (resolveLayoutPath W (W.layoutOf file) file) false (some html)
    | e => e

/-- `template.Render`: the layout loop when the page names a layout or layouts/base.vuego exists, else the page alone -/
def renderEntry {α : Type} (W : LWorld α) (page : Str) : Res α :=
  if W.layoutOf page != [] || W.fileExists sBase then layoutLoop W Generated.layoutFuel page true none
  else W.renderLink page none

/-! ### the data handed along the chain (template.layout's `data` map)

`data := t.stack.EnvMap()` of the page template — the auto-loaded config, the Fill/Assign layer and the page's own front-matter. Every
link is `t.Load(file).Fill(data)`: it sees the config, overlaid with `data`, overlaid with ITS OWN front-matter (front-matter is
authoritative, C08). After a link rendered, `data["content"]` is its output and `data["layout"]` is deleted; nothing else is ever written
to `data`. Maps are association lists read by lookup; the first occurrence of a key wins. -/

structure DWorld where
  config : Scope                     -- theme.yml / data/*.yml (Vue.initialData)
  fmOf : Str → Scope                 -- front-matter of a file ([] when it has none or cannot be loaded)
  fileExists : Str → Bool            -- Loader.Stat
  render : Str → Scope → Res Str     -- renderWithoutLayout(file) reading the given data

def sContent : Str := "content".toList
def sLayout : Str := "layout".toList

/-- what a link reads: its own front-matter first, then the data handed along, then the config -/
def visible (W : DWorld) (file : Str) (data : Scope) : Scope := W.fmOf file ++ data ++ W.config

/-- `Template.Get`: the string form of a value, "" when missing or nil -/
def getStr (m : Scope) (k : Str) : Str :=
  match Scope.get m k with
  | none => []
  | some .nil => []
  | some v => v.sprint

/-- `data["content"] = html; delete(data, "layout")` -/
def handOn (data : Scope) (html : Str) : Scope :=
  (sContent, .str html) :: data.filter (fun kv => kv.1 != sLayout && kv.1 != sContent)

/-- only the file-existence part is read by `resolveLayoutPath` -/
def DWorld.paths (W : DWorld) : LWorld Str :=
  { layoutOf := fun f => getStr (W.fmOf f) sLayout, fileExists := W.fileExists, renderLink := fun _ _ => .err "unused" [] }

/-- the loop of `template.layout` with its data -/
def dataLoop (W : DWorld) : Nat → Str → Bool → Scope → Res Str
  | 0, _, _, _ => .err "layout-depth" "layout chain depth exceeded maximum".toList
  | n + 1, file, first, data =>
    match W.render file (visible W file data) with
    | .ok html =>
      if getStr (visible W file data) sLayout == [] then
        if first then dataLoop W n sBase false (handOn data html) else .ok html
      else dataLoop W n (resolveLayoutPath W.paths (getStr (visible W file data) sLayout) file) false (handOn data html)
    | e => e

/-- the links the loop renders, in order, each with the data it reads -/
def dataTrace (W : DWorld) : Nat → Str → Bool → Scope → List (Str × Scope)
  | 0, _, _, _ => []
  | n + 1, file, first, data =>
    (file, visible W file data) ::
      (match W.render file (visible W file data) with
       | .ok html =>
         if getStr (visible W file data) sLayout == [] then
           if first then dataTrace W n sBase false (handOn data html) else []
         else dataTrace W n (resolveLayoutPath W.paths (getStr (visible W file data) sLayout) file) false (handOn data html)
       | _ => [])

/-- `template.Render` with data: `fill` is the Fill/Assign layer of the page template; its stack is `fm(page)` over `fill` over the config,
    and `data := t.stack.EnvMap()` starts as exactly that -/
def renderEntryD (W : DWorld) (page : Str) (fill : Scope) : Res Str :=
  if getStr (visible W page fill) sLayout != [] || W.fileExists sBase then dataLoop W Generated.layoutFuel page true (visible W page fill)
  else W.render page (visible W page fill)

def traceEntryD (W : DWorld) (page : Str) (fill : Scope) : List (Str × Scope) :=
  if getStr (visible W page fill) sLayout != [] || W.fileExists sBase then dataTrace W Generated.layoutFuel page true (visible W page fill)
  else [(page, visible W page fill)]

end Vuego.Layout
