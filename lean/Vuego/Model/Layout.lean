/-
Model of the layout machinery: template.Render's dispatch (template_render.go), the layout loop and resolveLayoutPath
(template_layout.go). The engine (rendering one file with the previous result as `content`) is a parameter `renderLink`;
`layoutOf f` is what `Get("layout")` yields after `Load(f).Fill(data)` ("" when none); `exists` is Loader.Stat.
-/
import Vuego.Model.Val
import Vuego.Generated.Consts
namespace Vuego.Layout
open Go Vuego

structure LWorld (α : Type) where
  layoutOf : Str → Str
  fileExists : Str → Bool
  renderLink : Str → Option α → Res α      -- render file `f` with `content` = the previous link's output (none for the page)

def sBase : Str := "layouts/base.vuego".toList
def sExt : Str := ".vuego".toList

/-- `filepath.Dir` for the slash-separated names the loader uses ("." when there is no directory part) -/
def dirOf (p : Str) : Str :=
  match (p.reverse.dropWhile (· != '/')).drop 1 with
  | [] => ['.']
  | d => d.reverse

/-- `filepath.Join(dir, name)` for clean relative names -/
def joinPath (dir name : Str) : Str := if dir == ['.'] then name else dir ++ '/' :: name

/-- `resolveLayoutPath`: relative to the current file first (as written when it ends in .vuego, then with the extension added), else layouts/ -/
def resolveLayoutPath {α : Type} (W : LWorld α) (layout cur : Str) : Str :=
  let dir := dirOf cur
  if hasSuffix layout sExt && W.fileExists (joinPath dir layout) then joinPath dir layout
  else if W.fileExists (joinPath dir (layout ++ sExt)) then joinPath dir (layout ++ sExt)
  else "layouts/".toList ++ layout ++ sExt

/-- the loop of `template.layout`: `fuel` is the remaining number of links (`maxDepth - depth`) -/
def layoutLoop {α : Type} (W : LWorld α) : Nat → Str → Bool → Option α → Res α
  | 0, _, _, _ => .err "layout-depth" "layout chain depth exceeded maximum".toList
  | n + 1, file, first, content =>
    match W.renderLink file content with
    | .ok html =>
      if W.layoutOf file == [] then
        if first then layoutLoop W n sBase false (some html) else .ok html
      else layoutLoop W n (resolveLayoutPath W (W.layoutOf file) file) false (some html)
    | e => e

/-- `template.Render`: the layout loop when the page names a layout or layouts/base.vuego exists, else the page alone -/
def renderEntry {α : Type} (W : LWorld α) (page : Str) : Res α :=
  if W.layoutOf page != [] || W.fileExists sBase then layoutLoop W Generated.layoutFuel page true none
  else W.renderLink page none

end Vuego.Layout
