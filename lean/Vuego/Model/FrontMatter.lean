/-
Model of `extractFrontMatter` (loader.go): the split of a template file into its YAML front-matter text and its template text.
Bytes are modelled as code points; both fences are ASCII, so positions correspond. The YAML decoding of the front-matter text is
outside the model (gopkg.in/yaml.v3; the harness sends the decoded map along with every file).
-/
import Vuego.Go.Strings
namespace Vuego.FrontMatter
open Go

def fenceOpen : Str := ['-', '-', '-']
def fenceClose : Str := ['\n', '-', '-', '-']

/-- `extractFrontMatter` up to YAML decoding: `none` = the file has no front-matter (the whole content is the template),
    `some (yaml, body)` = the text between the fences and the template text after the closing fence (one newline after it skipped) -/
def extract (content : Str) : Option (Str × Str) :=
  if !hasPrefix content fenceOpen then none
  else
    let rest := content.drop 3
    match index rest fenceClose with
    | none => none
    | some i =>
      let rem := rest.drop (i + 4)
      some (rest.take i, match rem with | '\n' :: r => r | _ => rem)

/-- the template text a file is rendered from -/
def body (content : Str) : Str := match extract content with | some (_, b) => b | none => content

end Vuego.FrontMatter
