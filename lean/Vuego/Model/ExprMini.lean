/-
ExprMini: a conventional evaluator for the fragment G of expr-lang that the correspondence generators use
(paths, literals, ! - unary, == != < > <= >= && || + - * %, ternary, parentheses, len()).
It stands for github.com/expr-lang/expr on G only; every evaluator theorem is generic in `exprEval`, so nothing proved
depends on this file. Its agreement with the real library is checked by the correspondence stream on every run.
-/
import Vuego.Model.Stack
namespace Vuego.ExprMini
open Go Vuego

inductive Tk where
  | int (n : Nat) | str (s : Str) | ident (s : Str) | op (s : Str) | lp | rp | lb | rb | dot | q | colon | comma
  deriving Repr, DecidableEq, Inhabited

def isIdStart (c : Char) : Bool := ('a' ≤ c && c ≤ 'z') || ('A' ≤ c && c ≤ 'Z') || c == '_' || c == '$'
def isIdChar (c : Char) : Bool := isIdStart c || isDigit c

def twoCharOps : List Str := [['=','='], ['!','='], ['<','='], ['>','='], ['&','&'], ['|','|']]

/-- tokenizer; `none` on a character outside the fragment -/
def lex : Nat → Str → Option (List Tk)
  | 0, _ => none
  | _, [] => some []
  | f + 1, c :: r =>
    if isSpace c then lex f r
    else if isDigit c then
      let ds := (c :: r).takeWhile isDigit
      (lex f ((c :: r).drop ds.length)).map (Tk.int (digitsToNat ds) :: ·)
    else if isIdStart c then
      let ds := (c :: r).takeWhile isIdChar
      (lex f ((c :: r).drop ds.length)).map (Tk.ident ds :: ·)
    else if c == '\'' || c == '"' then
      match r.span (· != c) with
      | (_, []) => none
      | (body, _ :: rest) => if body.contains '\\' then none else (lex f rest).map (Tk.str body :: ·)
    else
      match r with
      | d :: r2 =>
        if twoCharOps.contains [c, d] then (lex f r2).map (Tk.op [c, d] :: ·)
        else lexOne f c r
      | [] => lexOne f c r
where
  lexOne (f : Nat) (c : Char) (r : Str) : Option (List Tk) :=
    let one (t : Tk) := (lex f r).map (t :: ·)
    if c == '(' then one .lp else if c == ')' then one .rp else if c == '[' then one .lb else if c == ']' then one .rb
    else if c == '.' then one .dot else if c == '?' then one .q else if c == ':' then one .colon else if c == ',' then one .comma
    else if c == '!' || c == '<' || c == '>' || c == '+' || c == '-' || c == '*' || c == '%' then one (.op [c])
    else none

inductive Ex where
  | lit (v : Val)
  | var (name : Str)
  | member (e : Ex) (field : Str)
  | index (e : Ex) (i : Ex)
  | not (e : Ex)
  | neg (e : Ex)
  | bin (op : Str) (a b : Ex)
  | tern (c a b : Ex)
  | len (e : Ex)
  | call (name : Str) (e : Ex)
  deriving Repr, Inhabited

abbrev P := Option (Ex × List Tk)

def binLevels : List (List Str) :=
  [[['|','|']], [['&','&']], [['=','='], ['!','=']], [['<'], ['>'], ['<','='], ['>','=']], [['+'], ['-']], [['*'], ['%']]]

mutual
/-- precedence-climbing parser, fuelled (every call decreases the fuel) -/
def parseExpr : Nat → List Tk → P
  | 0, _ => none
  | f + 1, ts =>
    match parseBin f 0 ts with
    | some (c, .q :: r) =>
      match parseExpr f r with
      | some (a, .colon :: r2) =>
        match parseExpr f r2 with
        | some (b, r3) => some (.tern c a b, r3)
        | none => none
      | _ => none
    | other => other
def parseBin : Nat → Nat → List Tk → P
  | 0, _, _ => none
  | f + 1, lvl, ts =>
    match binLevels[lvl]? with
    | none => parseUnary f ts
    | some ops =>
      match parseBin f (lvl + 1) ts with
      | some (a, r) => parseBinRest f lvl ops a r
      | none => none
def parseBinRest : Nat → Nat → List Str → Ex → List Tk → P
  | 0, _, _, _, _ => none
  | f + 1, lvl, ops, a, ts =>
    match ts with
    | .op o :: r =>
      if ops.contains o then
        match parseBin f (lvl + 1) r with
        | some (b, r2) => parseBinRest f lvl ops (.bin o a b) r2
        | none => none
      else some (a, ts)
    | _ => some (a, ts)
def parseUnary : Nat → List Tk → P
  | 0, _ => none
  | f + 1, ts =>
    match ts with
    | .op ['!'] :: r => (parseUnary f r).map (fun (e, r2) => (.not e, r2))
    | .op ['-'] :: r => (parseUnary f r).map (fun (e, r2) => (.neg e, r2))
    | _ =>
      match parsePrimary f ts with
      | some (e, r) => parsePostfix f e r
      | none => none
def parsePostfix : Nat → Ex → List Tk → P
  | 0, _, _ => none
  | f + 1, e, ts =>
    match ts with
    | .dot :: .ident n :: r => parsePostfix f (.member e n) r
    | .dot :: .int n :: r => parsePostfix f (.member e (natToStr n)) r
    | .lb :: r =>
      match parseExpr f r with
      | some (i, .rb :: r2) => parsePostfix f (.index e i) r2
      | _ => none
    | _ => some (e, ts)
def parsePrimary : Nat → List Tk → P
  | 0, _ => none
  | f + 1, ts =>
    match ts with
    | .int n :: r => some (.lit (.int .int n), r)
    | .str s :: r => some (.lit (.str s), r)
    | .ident n :: .lp :: r =>
      if n == "len".toList then
        match parseExpr f r with
        | some (e, .rp :: r2) => some (.len e, r2)
        | _ => none
      else if n == "upper".toList || n == "lower".toList || n == "trim".toList then
        match parseExpr f r with
        | some (e, .rp :: r2) => some (.call n e, r2)
        | _ => none
      else none
    | .ident n :: r =>
      if n == "true".toList then some (.lit (.bool true), r)
      else if n == "false".toList then some (.lit (.bool false), r)
      else if n == "nil".toList then some (.lit .nil, r)
      else some (.var n, r)
    | .lp :: r =>
      match parseExpr f r with
      | some (e, .rp :: r2) => some (e, r2)
      | _ => none
    | _ => none
end

def parse (s : Str) : Option Ex :=
  match lex (s.length + 1) s with
  | some ts =>
    match parseExpr (4 * ts.length + 8) ts with
    | some (e, []) => some e
    | _ => none
  | none => none

/-- numeric value of an integer of any kind -/
def asInt : Val → Option Int
  | .int _ n => some n
  | _ => none

/-- `==` of expr-lang on the fragment: numbers by value, same-kind scalars by content, nil only equals nil -/
def looseEq (a b : Val) : Bool :=
  match a, b with
  | .int _ x, .int _ y => x == y
  -- a float is carried by its printed form: it equals an integer exactly when it prints as that integer (3.0 prints "3")
  | .float _ _ p, .int _ y => p == intToStr y
  | .int _ x, .float _ _ q => intToStr x == q
  | .float _ _ p, .float _ _ q => p == q
  | a, b => Val.beq a b

def unsupported : Res Val := .err "expr" "unsupported".toList

/-- a binary operator other than `&&` / `||` on two evaluated operands -/
def binOp (op : Str) (x y : Val) : Res Val :=
  if op == ['=','='] then .ok (.bool (looseEq x y))
  else if op == ['!','='] then .ok (.bool (!looseEq x y))
  else match x, y with
    | .int _ m, .int _ n =>
      if op == ['+'] then .ok (.int .int (m + n)) else if op == ['-'] then .ok (.int .int (m - n))
      else if op == ['*'] then .ok (.int .int (m * n))
      else if op == ['%'] then (if n == 0 then .err "expr" [] else .ok (.int .int (Int.tmod m n)))
      else if op == ['<'] then .ok (.bool (m < n)) else if op == ['>'] then .ok (.bool (m > n))
      else if op == ['<','='] then .ok (.bool (m ≤ n)) else if op == ['>','='] then .ok (.bool (m ≥ n))
      else unsupported
    | .str s, .str t =>
      if op == ['+'] then .ok (.str (s ++ t))
      else if op == ['<'] then .ok (.bool (s < t)) else if op == ['>'] then .ok (.bool (t < s))
      else if op == ['<','='] then .ok (.bool (s ≤ t)) else if op == ['>','='] then .ok (.bool (t ≤ s))
      else unsupported
    | _, _ => .err "expr" "invalid operation".toList

mutual
def eval (env : Scope) : Ex → Res Val
  | .lit v => .ok v
  | .var n => .ok ((Scope.get env n).getD .nil)
  | .member e fld =>
    match eval env e with
    | .ok (.map _ kvs) => .ok ((kvs.lookup fld).getD .nil)
    | .ok (.list _ xs) => (match atoi fld with | some i => if i ≥ 0 then (match xs[i.toNat]? with | some v => .ok v | none => .err "expr" []) else .err "expr" [] | none => .err "expr" [])
    | .ok (.strct fs) => (match fieldByName fs fld with | some (true, v) => .ok v | _ => (match fieldByTagExported fs fld with | some v => .ok v | none => .err "expr" []))
    | .ok _ => .err "expr" "cannot fetch".toList
    | r => r
  | .index e i =>
    match eval env e, eval env i with
    | .ok (.list _ xs), .ok (.int _ n) => if n ≥ 0 then (match xs[n.toNat]? with | some v => .ok v | none => .err "expr" []) else (match xs[(xs.length : Int) + n |>.toNat]? with | some v => if (xs.length : Int) + n ≥ 0 then .ok v else .err "expr" [] | none => .err "expr" [])
    | .ok (.map _ kvs), .ok (.str k) => .ok ((kvs.lookup k).getD .nil)
    | .ok _, .ok _ => .err "expr" []
    | .ok _, r => r
    | r, _ => r
  | .not e =>
    match eval env e with
    | .ok (.bool b) => .ok (.bool (!b))
    | .ok _ => .err "expr" "not bool".toList
    | r => r
  | .neg e =>
    match eval env e with
    | .ok (.int _ n) => .ok (.int .int (-n))
    | .ok _ => .err "expr" []
    | r => r
  | .len e =>
    match eval env e with
    | .ok (.list _ xs) => .ok (.int .int xs.length)
    | .ok (.str s) => .ok (.int .int s.length)
    | .ok (.map _ kvs) => .ok (.int .int kvs.length)
    | .ok _ => .err "expr" []
    | r => r
  | .call name e =>
    match eval env e with
    | .ok (.str s) =>
      if name == "upper".toList then .ok (.str (s.map (fun c => if 'a' ≤ c && c ≤ 'z' then Char.ofNat (c.toNat - 32) else c)))
      else if name == "lower".toList then .ok (.str (s.map (fun c => if 'A' ≤ c && c ≤ 'Z' then Char.ofNat (c.toNat + 32) else c)))
      else .ok (.str (trimSpace s))
    | .ok v => .ok v
    | r => r
  | .tern c a b =>
    match eval env c with
    | .ok (.bool true) => eval env a
    | .ok (.bool false) => eval env b
    | .ok _ => .err "expr" []
    | r => r
  | .bin op a b =>
    if op == ['&','&'] then
      match eval env a with
      | .ok (.bool true) => eval env b
      | .ok (.bool false) => .ok (.bool false)
      | .ok _ => .err "expr" []
      | r => r
    else if op == ['|','|'] then
      match eval env a with
      | .ok (.bool true) => .ok (.bool true)
      | .ok (.bool false) => eval env b
      | .ok _ => .err "expr" []
      | r => r
    else
      match eval env a, eval env b with
      | .ok x, .ok y => binOp op x y
      | .ok _, r => r
      | r, _ => r
end

/-- `ExprEvaluator.Eval` on the fragment: `!==`/`===` normalisation, parse, evaluate; outside the fragment: an error -/
def normalizeOps : Str → Str
  | '!' :: '=' :: '=' :: r => '!' :: '=' :: normalizeOps r
  | '=' :: '=' :: '=' :: r => '=' :: '=' :: normalizeOps r
  | c :: r => c :: normalizeOps r
  | [] => []

def exprEval (s : Str) (env : Scope) : Res Val :=
  match parse (normalizeOps s) with
  | some e => eval env e
  | none => .err "expr" "compile error".toList

end Vuego.ExprMini
