/-
Model of /repo/interpolate.go (containsInterpolation is regenerated; interpolateToWriter), of evalBoundAttribute /
evalObjectBinding and the style helpers of eval_attributes.go and eval_visibility.go, and of evalConditionExpr.
-/
import Vuego.Model.Pipe
import Vuego.Model.Truthy
import Vuego.Model.Dom
namespace Vuego
open Go

/-- lift helpers for `Res` with differing payload types -/
def Res.castErr {α β : Type} : Res α → Res β
  | .ok _ => .err "internal" []
  | .err c m => .err c m
  | .panic s => .panic s
  | .hang s => .hang s
  | .fuel => .fuel

def trimExpr (s : Str) : Str :=
  let ws (c : Char) := c == ' ' || c == '\t' || c == '\n' || c == '\r'
  ((s.dropWhile ws).reverse.dropWhile ws).reverse

/-- value of one `{{ expr }}`: pipe interpreter, or path with the expression fallback; `nil` prints nothing -/
def evalMustache (P : Params) (s : Stack) (expr : Str) : Res Val :=
  if routesToPipe expr then
    wrapErr ("in expression '{{ ".toList ++ expr ++ " }}': ".toList) (evalPipe P s (parsePipeExpr expr))
  else
    match s.resolve P.cfg expr with
    | .ok (some v) => .ok v
    | .ok none => (match P.exprEval expr (s.envMap P.cfg) with | .ok v => .ok v | .err _ _ => .ok .nil | r => r)
    | r => r.castErr

/-- what one mustache contributes: nothing for nil, else the value's string form (`fmt.Sprint`) -/
def mustachePiece : Val → Str
  | .nil => []
  | v => v.sprint

/-- `interpolateToWriter`: scan `{{` … first following `}}`; the value's string form is written as is (no escaping: the
    serialiser escapes) -/
def interpolateAux (P : Params) (s : Stack) : Nat → Str → Res Str
  | 0, _ => .fuel
  | f + 1, input =>
    match index input ['{', '{'] with
    | none => .ok input
    | some st =>
      let after := input.drop (st + 2)
      match index after ['}', '}'] with
      | none => .ok input
      | some en =>
        let expr := trimExpr (after.take en)
        match evalMustache P s expr with
        | .ok v =>
          (match interpolateAux P s f (after.drop (en + 2)) with
           | .ok rest => .ok (input.take st ++ mustachePiece v ++ rest)
           | e => e)
        | e => e.castErr

/-- `interpolate`: identity unless the input has balanced, non-zero counts of `{{` and `}}` -/
def interpolate (P : Params) (s : Stack) (input : Str) : Res Str :=
  if !Generated.containsInterpolation input then .ok input
  else interpolateAux P s (input.length + 1) input

/-! ### object bindings -/

/-- `splitObjectItems`: top-level commas (quotes and braces respected) -/
def splitObjectItemsAux : Str → Str → Option Char → Int → List Str → List Str
  | [], cur, _, _, acc => if cur == [] then acc else acc ++ [cur]
  | c :: r, cur, q, depth, acc =>
    match q with
    | some qc => if c == qc then splitObjectItemsAux r (cur ++ [c]) none depth acc else splitObjectItemsAux r (cur ++ [c]) q depth acc
    | none =>
      if c == '"' || c == '\'' then splitObjectItemsAux r (cur ++ [c]) (some c) depth acc
      else if c == '{' then splitObjectItemsAux r (cur ++ [c]) none (depth + 1) acc
      else if c == '}' then splitObjectItemsAux r (cur ++ [c]) none (depth - 1) acc
      else if c == ',' && depth == 0 then splitObjectItemsAux r [] none depth (acc ++ [cur])
      else splitObjectItemsAux r (cur ++ [c]) none depth acc

def splitObjectItems (s : Str) : List Str := splitObjectItemsAux s [] none 0 []

/-- one `key: expr` entry resolved: (key, value or none when it did not resolve) -/
def parseObjectPairs (P : Params) (s : Stack) (content : Str) : Res (List (Str × Option Val)) :=
  let items := (splitObjectItems content).map trimSpace |>.filter (· != [])
  items.foldl (fun acc item =>
    match acc with
    | .ok pairs =>
      match splitFirst ':' item with
      | none => .ok pairs
      | some (k, vexpr) =>
        let key := trim (trimSpace k) ['\'']
        let ve := trimSpace vexpr
        (match P.exprEval ve (s.envMap P.cfg) with
         | .ok v => .ok (pairs ++ [(key, some v)])
         | .err _ _ =>
           (match s.resolve P.cfg ve with
            | .ok (some v) => .ok (pairs ++ [(key, some v)])
            | .ok none => .ok (pairs ++ [(key, none)])
            | r => r.castErr)
         | r => r.castErr)
    | e => e) (.ok [])

/-- `camelToKebab` (eval_attributes.go) -/
def camelToKebab : Str → Bool → Str
  | [], _ => []
  | c :: r, first => (if !first && 'A' ≤ c && c ≤ 'Z' then ['-', lowerChar c] else [c]) ++ camelToKebab r false

def buildClassString (pairs : List (Str × Option Val)) : Str :=
  joinWith [' '] (pairs.filterMap (fun (k, v) => match v with | some x => if isTruthy x then some (trimSpace k) else none | none => none))

def buildStyleString (pairs : List (Str × Option Val)) : Str :=
  (pairs.filterMap (fun (k, v) => match v with
    | some x =>
      let value := trim (trimSpace x.sprint) ['"', '\'']
      let key := trimSpace k
      if value == [] then none else some ((if key.contains '-' then key else camelToKebab key true) ++ ':' :: value ++ [';'])
    | none => none)).flatten

def evalObjectBinding (P : Params) (s : Stack) (attrName expr : Str) : Res Str :=
  let e := trimSpace expr
  match parseObjectPairs P s ((e.drop 1).dropLast) with
  | .ok pairs =>
    if attrName == "class".toList then .ok (buildClassString pairs)
    else if attrName == "style".toList then .ok (buildStyleString pairs)
    else .ok (joinWith [' '] (pairs.filterMap (fun (k, v) => v.map (fun x => k ++ ':' :: x.sprint))))
  | e => e.castErr

/-- `evalBoundAttribute` -/
def evalBoundAttribute (P : Params) (s : Stack) (attrName expr0 : Str) : Res Val :=
  let expr := trimSpace expr0
  if Generated.containsInterpolation expr then
    match interpolate P s expr with | .ok t => .ok (.str t) | e => e.castErr
  else if hasPrefix expr ['{'] && hasSuffix expr ['}'] then
    match evalObjectBinding P s attrName expr with | .ok t => .ok (.str t) | e => e.castErr
  else if routesToPipe expr then evalPipe P s (parsePipeExpr expr)
  else
    match s.resolve P.cfg expr with
    | .ok (some v) => .ok v
    | .ok none => (match P.exprEval expr (s.envMap P.cfg) with | .ok .nil => .ok (.str []) | .ok v => .ok v | .err _ _ => .ok (.str []) | r => r)
    | r => r.castErr

/-! ### ordered style declarations (mergeStyles / setStyleProperty after the repair) -/

def mergeStyleDecl : List (Str × Str) → Str × Str → List (Str × Str)
  | [], d => [d]
  | (k, v) :: r, (k', v') => if k == k' then (k, v') :: r else (k, v) :: mergeStyleDecl r (k', v')

def parseStyleDecls (style : Str) : List (Str × Str) :=
  (splitChar ';' style).foldl (fun acc part =>
    let p := trimSpace part
    if p == [] then acc else
    match splitFirst ':' p with
    | some (k, v) => mergeStyleDecl acc (trimSpace k, trimSpace v)
    | none => acc) []

def joinStyleDecls (ds : List (Str × Str)) : Str := (ds.map (fun (k, v) => k ++ ':' :: v ++ [';'])).flatten

def mergeStyles (staticStyle boundStyle : Str) : Str :=
  joinStyleDecls ((parseStyleDecls boundStyle).foldl mergeStyleDecl (parseStyleDecls staticStyle))

/-! ### conditions -/

/-- is the condition exactly one call of a registered template function? (`isTemplateFuncCall`) -/
def isTemplateFuncCall (expr : Str) : Bool :=
  if Generated.isComplexExpr expr || expr.contains '|' then false
  else match matchFilterRe expr with
    | some (name, _) => Generated.isFunctionCall expr && (callBuiltin name []).isSome
    | none => false

/-- `evalConditionExpr` -/
def evalCondition (P : Params) (s : Stack) (expr0 : Str) : Res Bool :=
  let expr := ExprNorm.normalize (trimSpace expr0)
  if isTemplateFuncCall expr then
    match wrapErr ("in expression '".toList ++ expr ++ "': ".toList) (evalPipe P s (parsePipeExpr expr)) with
    | .ok v => .ok (isTruthy v)
    | e => e.castErr
  else
    let env := s.envMap P.cfg
    match P.exprEval expr env with
    | .ok v => .ok (isTruthy v)
    | .err _ _ =>
      if hasPrefix expr ['!'] then
        let inner := trimSpace (expr.drop 1)
        match P.exprEval inner env with
        | .ok v => .ok (!isTruthy v)
        | .err _ _ =>
          (match s.resolve P.cfg inner with
           | .ok (some v) => .ok (!isTruthy v)
           | .ok none => .ok true
           | r => r.castErr)
        | r => r.castErr
      else if (matchFilterRe expr).isSome && Generated.isFunctionCall expr && !(expr.contains '|') then
        .err "func" ("in expression '".toList ++ expr ++ "': function '".toList ++ ((matchFilterRe expr).map (·.1)).getD [] ++ "' not found".toList)
      else
        match s.resolve P.cfg expr with
        | .ok (some v) => .ok (isTruthy v)
        | .ok none => .ok false
        | r => r.castErr
    | r => r.castErr

end Vuego
