/-
Model of the template cache: Vue.loadCachedWithFrontMatter (vue.go). The filesystem is a map name ↦ (content, mtime); mtime 0 is Go's zero time
(what a failed Stat leaves in currentModTime). Parsing (front-matter + HTML) is a parameter.
-/
import Vuego.Go.Strings
namespace Vuego.Cache
open Go

structure File (C : Type) where
  content : C
  mtime : Nat

abbrev FS (C : Type) := Str → Option (File C)
abbrev TCache (D : Type) := Str → Option (D × Nat)

def upd {β : Type} (m : Str → Option β) (k : Str) (v : Option β) : Str → Option β := fun x => if x = k then v else m x

/-- `loadCachedWithFrontMatter`: (result, cache afterwards). The two rule flags are read from the source: `statFailureIsMiss` (a failed Stat
    never answers from the cache) and `zeroMtimeIsHit` (a current modification time of zero answers from ANY entry — the pinned rule, "cannot
    check" — rather than only from an entry recorded at the zero time). -/
def loadCached {C D : Type} (parse : C → Option D) (statFailureIsMiss zeroMtimeIsHit : Bool) (fs : FS C) (cache : TCache D) (name : Str) : Option D × TCache D :=
  let cur : Nat := match fs name with | some f => f.mtime | none => 0
  let statFailed := (fs name).isNone
  let hit : Option D := match cache name with
    | some (d, cmt) => if (!(statFailed && statFailureIsMiss)) && ((zeroMtimeIsHit && cur == 0) || cmt == cur) then some d else none
    | none => none
  match hit with
  | some d => (some d, cache)
  | none =>
    match fs name with
    | none => (none, cache)                      -- read error: nothing cached
    | some f =>
      match parse f.content with
      | none => (none, cache)                    -- parse / front-matter error: nothing cached
      | some d => (some d, upd cache name (some (d, cur)))

/-- what a newly created engine does -/
def freshLoad {C D : Type} (parse : C → Option D) (fs : FS C) (name : Str) : Option D :=
  match fs name with | some f => parse f.content | none => none

inductive Op (C : Type) where
  | write (name : Str) (content : C) (mtime : Nat)     -- create, edit or recreate
  | delete (name : Str)
  | render (name : Str)

structure State (C D : Type) where
  fs : FS C
  cache : TCache D

def step {C D : Type} (parse : C → Option D) (miss zeroHit : Bool) (s : State C D) : Op C → State C D × Option (Option D)
  | .write n c mt => ({ s with fs := upd s.fs n (some { content := c, mtime := mt }) }, none)
  | .delete n => ({ s with fs := upd s.fs n none }, none)
  | .render n => let (r, cache') := loadCached parse miss zeroHit s.fs s.cache n; ({ s with cache := cache' }, some r)

end Vuego.Cache
