import Vuego.Go.Strings
namespace Vuego
open Go
/-- the shapes a `case` body of `IsTruthy`'s type switch can take (recognised syntactically by the extractor) -/
inductive TruthRule where
  | boolValue                      -- `return b`
  | strNotIn (falsy : List Str)    -- `if b == "" || b == "false" { return false }; return true`
  | sprintNotZero                  -- `return fmt.Sprintf("%v", b) != "0"`
  | neZero                         -- `return b != 0`
  | constTrue
  | constFalse
  deriving Repr, DecidableEq
end Vuego
