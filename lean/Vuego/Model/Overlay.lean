/-
Model of /repo/overlay_fs.go (OverlayFS.Open / ReadDir / Glob), written loop-for-loop.
A layer is an abstract filesystem `Str → Option Entry`; `none` in the chain is a nil layer.
The order of `fs.ReadDir` results inside one layer and `fs.Glob` results is whatever the layer returns.
-/
import Vuego.Go.Strings
namespace Vuego.Overlay
open Go

inductive Entry where
  | file (content : Str)
  | dir (entries : List (Str × Bool))   -- (name, isDir) as the layer lists them
  deriving Repr, DecidableEq

structure Layer where
  look : Str → Option Entry
  glob : Str → List Str                -- fs.Glob(layer, pattern), errors ignored by the code

abbrev Chain := List (Option Layer)

/-- `OverlayFS.Open`: `for _, chainfs := range o.chainFS { if nil continue; f, err := Open; if err == nil return f }; return ErrNotExist`.
    Returns the index of the serving layer with the entry. -/
def openFrom : Nat → Chain → Str → Option (Nat × Entry)
  | _, [], _ => none
  | i, none :: r, p => openFrom (i + 1) r p
  | i, some L :: r, p =>
    match L.look p with
    | some e => some (i, e)
    | none => openFrom (i + 1) r p

def «open» (c : Chain) (p : Str) : Option (Nat × Entry) := openFrom 0 c p

/-- metadata of an entry as `fs.FileInfo` shows it: (isDir, size) -/
def Entry.info : Entry → Bool × Nat
  | .file c => (false, c.length)
  | .dir _ => (true, 0)

/-- `fs.Stat(overlay, p)`: the overlay has no `Stat` of its own (Generated.overlayMethods), so io/fs does `Open` + `File.Stat` + `Close`:
    the metadata of the entry `Open` serves, with the index of the serving layer -/
def stat (c : Chain) (p : Str) : Option (Nat × Bool × Nat) := («open» c p).map (fun r => (r.1, r.2.info))

/-- `fs.ReadDir(layer, name)`: entries when `name` is a directory there, an error otherwise. -/
def layerReadDir (L : Layer) (p : Str) : Option (List (Str × Bool)) :=
  match L.look p with
  | some (.dir es) => some es
  | _ => none

/-- one merged entry: name, isDir, index of the layer it came from -/
abbrev MEntry := Str × Bool × Nat

def hasName (m : List MEntry) (n : Str) : Bool := m.any (fun e => e.1 == n)

/-- `if _, exists := merged[e.Name()]; !exists { merged[e.Name()] = e }` over one layer's listing -/
def addEntries (i : Nat) : List MEntry → List (Str × Bool) → List MEntry
  | m, [] => m
  | m, (n, d) :: r => if hasName m n then addEntries i m r else addEntries i (m ++ [(n, d, i)]) r

structure RD where
  merged : List MEntry := []
  lastErr : Bool := false
  found : Bool := false
  deriving Repr

def readDirLoop : Nat → Chain → Str → RD → RD
  | _, [], _, st => st
  | i, none :: r, p, st => readDirLoop (i + 1) r p st
  | i, some L :: r, p, st =>
    match layerReadDir L p with
    | some es => readDirLoop (i + 1) r p { st with merged := addEntries i st.merged es, found := true }
    | none => readDirLoop (i + 1) r p { st with lastErr := true }

def insertByName (e : MEntry) : List MEntry → List MEntry
  | [] => [e]
  | x :: r => if e.1 < x.1 then e :: x :: r else x :: insertByName e r

def sortByName : List MEntry → List MEntry
  | [] => []
  | e :: r => insertByName e (sortByName r)

/-- which condition decides "no filesystem had this directory".
    `byEmpty` is the pinned code (`len(merged) == 0 && lastErr != nil`), `byFound` a found-flag. -/
inductive ErrRule where | byEmpty | byFound
  deriving Repr, DecidableEq

def readDirWith (rule : ErrRule) (c : Chain) (p : Str) : Option (List MEntry) :=
  let st := readDirLoop 0 c p {}
  let isErr := match rule with
    | .byEmpty => st.merged.isEmpty && st.lastErr
    | .byFound => !st.found && st.lastErr
  if isErr then none else some (sortByName st.merged)

/-- `OverlayFS.Glob`: union of the layers' matches through a set, then `sort.Strings`. -/
def globUnion : Chain → Str → List Str
  | [], _ => []
  | none :: r, pat => globUnion r pat
  | some L :: r, pat => L.glob pat ++ globUnion r pat

def insertStr (s : Str) : List Str → List Str
  | [] => [s]
  | x :: r => if s < x then s :: x :: r else if s = x then x :: r else x :: insertStr s r

def sortDedup : List Str → List Str
  | [] => []
  | s :: r => insertStr s (sortDedup r)

def glob (c : Chain) (pat : Str) : List Str := sortDedup (globUnion c pat)

end Vuego.Overlay
