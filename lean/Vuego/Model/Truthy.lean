/-
`helpers.IsTruthy`, driven by the type-switch table the extractor regenerates from the source.
-/
import Vuego.Model.Val
import Vuego.Model.TruthRule
import Vuego.Generated.Truthy
namespace Vuego
open Go

def lookupRule (t : String) : List (List String × TruthRule) → Option TruthRule
  | [] => none
  | (ks, r) :: rest => if ks.contains t then some r else lookupRule t rest

/-- what a `case` body computes for a value of the case's type; a rule applied to a value of another shape
    cannot occur in Go (the case would not have matched) — the model answers `true` there and the theorems never rely on it -/
def applyRule : TruthRule → Val → Bool
  | .boolValue, .bool b => b
  | .strNotIn falsy, .str s => !(falsy.contains s)
  | .sprintNotZero, .int _ n => n != 0            -- `%v` of an integer prints "0" exactly for zero
  | .sprintNotZero, .float _ _ p => p != ['0']    -- NB `-0.0` prints "-0"
  | .sprintNotZero, v => v.sprint != ['0']
  | .neZero, .int _ n => n != 0
  | .neZero, .float _ z _ => !z
  | .constTrue, _ => true
  | .constFalse, _ => false
  | _, _ => true

def isTruthyWith (table : List (List String × TruthRule)) (dflt : TruthRule) (v : Val) : Bool :=
  applyRule ((lookupRule v.typeName table).getD dflt) v

/-- `helpers.IsTruthy` as the source has it now -/
def isTruthy (v : Val) : Bool := isTruthyWith Generated.truthyTable Generated.truthyDefault v

end Vuego
