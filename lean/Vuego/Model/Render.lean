/-
Model of the serialiser, /repo/component.go (renderNodeWithContext, renderAttrs), statement for statement.
The three content-sniffing/escaping leaf functions and the directive list are the *regenerated* ones.
Write errors are not modelled here (see Model/Entry for the writer programs of C12).
-/
import Vuego.Model.Dom
import Vuego.Generated.Leaf
import Vuego.Generated.RenderFacts
namespace Vuego
open Go

def spaces (n : Nat) : Str := List.replicate n ' '

def sDoctypeOpen : Str := ['<', '!', 'D', 'O', 'C', 'T', 'Y', 'P', 'E', ' ']

/-- `renderAttrs` -/
def renderAttrs : List Attr → Str
  | [] => []
  | (k, v) :: r =>
    if Generated.shouldIgnoreAttr k then renderAttrs r
    else
      let key := if Generated.isLiteralAttr k then (k.drop 1).dropLast else k
      ' ' :: (key ++ ['=', '"'] ++ Generated.escapeAttrValue v ++ ['"'] ++ renderAttrs r)

def isRawTextTag (t : Str) : Bool := t == sScript || t == sStyle

/-- text node body shared by the two places that write text -/
def renderTextData (raw : Bool) (d : Str) : Str :=
  if raw then d else if Generated.shouldEscapeTextNode d then escape d else d

/-- the three layouts of an element: no child, exactly one text child (written inline), anything else (children on their own lines) -/
inductive KidShape where
  | none
  | oneText (d : Str)
  | many

def kidShape : List Node → KidShape
  | [] => .none
  | [.text d] => .oneText d
  | _ => .many

mutual
/-- `renderNodeWithContext(ctx, w, node, indent)`; `parent` is `ctx.CurrentTag()` -/
def renderNode (parent : Str) (indent : Nat) : Node → Str
  | .text d =>
    if blankText d then [] else spaces indent ++ renderTextData (isRawTextTag parent) d
  | .elem tag attrs kids =>
    let (vhtml, vtext) := contentAttrs attrs
    if vhtml != [] || vtext != [] then
      let content := if vtext != [] then vtext else vhtml
      if tag == sTemplate then content
      else spaces indent ++ '<' :: tag ++ renderAttrs attrs ++ ['>'] ++ content ++ ['<', '/'] ++ tag ++ ['>', '\n']
    else if tag == sTemplate && !hasAttr attrs sVKeep then
      renderList parent indent kids
    else if tag == sTemplate && hasAttr attrs sVKeep then
      spaces indent ++ '<' :: tag ++ renderAttrs (removeAttr attrs sVKeep) ++ ['>', '\n'] ++
        renderList tag (indent + 2) kids ++ spaces indent ++ ['<', '/'] ++ tag ++ ['>', '\n']
    else
      match kidShape kids with
      | .none => spaces indent ++ '<' :: tag ++ renderAttrs attrs ++ ['>', '<', '/'] ++ tag ++ ['>', '\n']
      | .oneText d =>
        spaces indent ++ '<' :: tag ++ renderAttrs attrs ++ ['>'] ++ renderTextData (isRawTextTag tag) d ++ ['<', '/'] ++ tag ++ ['>', '\n']
      | .many =>
        spaces indent ++ '<' :: tag ++ renderAttrs attrs ++ ['>', '\n'] ++
          renderList tag (indent + 2) kids ++ spaces indent ++ ['<', '/'] ++ tag ++ ['>', '\n']
  | .comment _ => []
  | .doctype d => if Generated.rendersDoctype then sDoctypeOpen ++ d ++ ['>', '\n'] else []
def renderList (parent : Str) (indent : Nat) : List Node → Str
  | [] => []
  | n :: r => renderNode parent indent n ++ renderList parent indent r
end

/-- `Vue.render`: every top-level node with a fresh context and indent 0 -/
def render (nodes : List Node) : Str := renderList [] 0 nodes

end Vuego
