/-
Model of the render entry points as WRITER PROGRAMS (template_render.go, template_layout.go, vue.go `render` + errWriter,
component.go's discarded Write results). The evaluation itself is a parameter: either an error or the list of chunks the
serialiser writes. The destination writer fails from byte offset `failAt` (none = healthy).
-/
import Vuego.Go.Strings
namespace Vuego.Entry
open Go

structure Writer where
  written : Str
  failAt : Option Nat
  deriving Repr, DecidableEq

/-- one `Write(p)`: everything when there is room, otherwise the bytes up to the failing offset and an error -/
def Writer.write (w : Writer) (p : Str) : Writer × Bool :=
  match w.failAt with
  | none => ({ w with written := w.written ++ p }, false)
  | some k =>
    let room := k - w.written.length
    if p.length ≤ room then ({ w with written := w.written ++ p }, false)
    else ({ w with written := w.written ++ p.take room }, true)

/-- facts read from the source by the extractor -/
structure EntryCfg where
  vueRenderReportsWriteError : Bool    -- Vue.render wraps w in the first-error-remembering writer and returns its error
  layoutReturnsCopyError : Bool        -- the layout loop returns io.Copy's error
  readerReturnsWriteToError : Bool     -- RenderReader returns buf.WriteTo's error
  deriving Repr, DecidableEq

inductive Kind where
  | fileNoLayout      -- Render/RenderFile on a file without layout: Vue.Render straight into w
  | layoutChain       -- Render/RenderFile with a layout chain: every link into a private buffer, io.Copy of the last one
  | stringLike        -- RenderString/RenderByte/RenderReader: private buffer, then buf.WriteTo(w)
  deriving Repr, DecidableEq

/-- the serialiser's writes through errWriter: after the first failure nothing more reaches the destination -/
def writeChunks : Writer → List Str → Writer × Bool
  | w, [] => (w, false)
  | w, c :: r =>
    match w.write c with
    | (w', true) => (w', true)
    | (w', false) => writeChunks w' r

def joinChunks : List Str → Str
  | [] => []
  | c :: r => c ++ joinChunks r

/-- outcome of an entry point: (an error was returned, the destination afterwards) -/
def run (cfg : EntryCfg) (kind : Kind) (cancelled : Bool) (prog : Except String (List Str)) (w : Writer) : Bool × Writer :=
  if cancelled then (true, w)
  else match prog with
    | .error _ => (true, w)
    | .ok chunks =>
      match kind with
      | .fileNoLayout =>
        let (w', failed) := writeChunks w chunks
        (failed && cfg.vueRenderReportsWriteError, w')
      | .layoutChain =>
        let (w', failed) := w.write (joinChunks chunks)
        (failed && cfg.layoutReturnsCopyError, w')
      | .stringLike =>
        let (w', failed) := w.write (joinChunks chunks)
        (failed && cfg.readerReturnsWriteToError, w')

end Vuego.Entry
