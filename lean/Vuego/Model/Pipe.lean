/-
Model of /repo/funcmap.go (parsePipeExpr, classifySegment, parseArgs, evalPipe, evalSegment, evalFilter, resolveArgument,
callFunc's arity rule) for a catalogue of built-in functions, and of the expression router used by interpolate /
evalBoundAttribute / v-html / v-text. `exprEval` (expr-lang) is a parameter.
-/
import Vuego.Model.Stack
import Vuego.Model.Call
import Vuego.Generated.Leaf
namespace Vuego
open Go

/-- `helpers.NormalizeComparisonOperators`: `===` ↦ `==`, `!==` ↦ `!=` -/
def ExprNorm.normalize : Str → Str
  | '=' :: '=' :: '=' :: r => '=' :: '=' :: ExprNorm.normalize r
  | '!' :: '=' :: '=' :: r => '!' :: '=' :: ExprNorm.normalize r
  | c :: r => c :: ExprNorm.normalize r
  | [] => []

/-- the evaluator's parameters: the external expression evaluator and the regenerated reflect facts -/
structure Params where
  exprEval : Str → Scope → Res Val
  cfg : ReflectCfg

inductive Seg where
  | filter (name : Str) (args : List Str)
  | expr (e : Str)
  deriving Repr, DecidableEq

structure PipeExpr where
  initial : Str
  segs : List Seg
  deriving Repr, DecidableEq

def isWordChar (c : Char) : Bool := isDigit c || ('a' ≤ c && c ≤ 'z') || ('A' ≤ c && c ≤ 'Z') || c == '_'

/-- the scan of `matchCall`: no `)` outside quotes closes the parenthesis opened after the name -/
def argsBalanced : Str → Nat → Option Char → Bool
  | [], _, _ => true
  | c :: r, depth, some q => argsBalanced r depth (if c == q then none else some q)
  | c :: r, depth, none =>
    if c == '"' || c == '\'' then argsBalanced r depth (some c)
    else if c == '(' then argsBalanced r (depth + 1) none
    else if c == ')' then (if depth == 0 then false else argsBalanced r (depth - 1) none)
    else argsBalanced r depth none

/-- `matchCall`: `filterRe = ^(\w+)(?:\((.*?)\))?$` plus the balance scan : (name, args text) -/
def matchFilterRe (s : Str) : Option (Str × Str) :=
  let name := s.takeWhile isWordChar
  let rest := s.drop name.length
  if name == [] then none
  else if rest == [] then some (name, [])
  else match rest with
    | '(' :: r => if r.getLast? == some ')' && argsBalanced r.dropLast 0 none then some (name, r.dropLast) else none
    | _ => none

/-- `helpers.IsIdentifier` -/
def isIdentifier (s : Str) : Bool :=
  match s with
  | [] => false
  | c :: r => Generated.isIdentifierChar c true && r.all (fun x => Generated.isIdentifierChar x false)

/-- `parseArgs`: comma-separated, quotes are dropped, commas inside quotes kept; empty pieces are skipped -/
def parseArgsAux : Str → Str → Option Char → List Str → List Str
  | [], cur, _, acc => if cur == [] then acc else acc ++ [trimSpace cur]
  | c :: r, cur, q, acc =>
    match q with
    | none =>
      if c == '"' || c == '\'' then parseArgsAux r (cur ++ [c]) (some c) acc   -- the quotes stay in the argument text (fix: a quoted argument is a string literal)
      else if c == ',' then (if cur == [] then parseArgsAux r [] none acc else parseArgsAux r [] none (acc ++ [trimSpace cur]))
      else parseArgsAux r (cur ++ [c]) none acc
    | some qc =>
      if c == qc then parseArgsAux r (cur ++ [c]) none acc
      else parseArgsAux r (cur ++ [c]) (some qc) acc

def parseArgs (s : Str) : List Str := parseArgsAux (trimSpace s) [] none []

def classifySegment (part : Str) : Seg :=
  if Generated.isComplexExpr part then .expr part
  else match matchFilterRe part with
    | some (name, args) => if isIdentifier name then .filter name (if args == [] then [] else parseArgs args) else .expr part
    | none => .expr part

def parsePipeExpr (expr : Str) : PipeExpr :=
  let trimmed := trimSpace expr
  if Generated.isComplexExpr trimmed then { initial := [], segs := [.expr trimmed] }
  else if !(expr.contains '|') then
    match matchFilterRe trimmed with
    | some (name, args) => { initial := [], segs := [.filter name (parseArgs args)] }
    | none => { initial := trimmed, segs := [] }
  else
    match splitChar '|' expr with
    | [] => { initial := trimmed, segs := [] }
    | first :: rest => { initial := trimSpace first, segs := rest.map (fun p => classifySegment (trimSpace p)) }

/-- boolean literals of an argument list: `true` and `false` only (fix: the other spellings strconv.ParseBool accepts — t, f, T, F, True … —
    are variable names) -/
def parseBool (s : Str) : Option Bool :=
  if s == "true".toList then some true
  else if s == "false".toList then some false
  else none

/-- decimal floats of the form digits '.' digits (what the generators use); printed form as Go prints it is supplied as-is -/
def parseSimpleFloat (s : Str) : Option Val :=
  match splitFirst '.' s with
  | some (a, b) => if a != [] && b != [] && a.all isDigit && b.all isDigit then some (.float .float64 ((a ++ b).all (· == '0')) s) else none
  | none => none

/-- `resolveArgument` -/
def resolveArgument (P : Params) (s : Stack) (arg0 : Str) : Res Val :=
  let arg := trimSpace arg0
  let quoted := arg.length ≥ 2 && ((arg.head? == some '"' && arg.getLast? == some '"') || (arg.head? == some '\'' && arg.getLast? == some '\''))
  if quoted then .ok (.str ((arg.drop 1).dropLast))
  else match atoi arg with
    | some i => .ok (.int .int i)
    | none =>
      match parseSimpleFloat arg with
      | some f => .ok f
      | none =>
        match parseBool arg with
        | some b => .ok (.bool b)
        | none =>
          match s.resolve P.cfg arg with
          | .ok (some v) => .ok v
          | .ok none => .ok (.str arg)
          | .panic x => .panic x
          | .err c m => .err c m
          | .hang x => .hang x
          | .fuel => .fuel

def upperChar (c : Char) : Char := if 'a' ≤ c && c ≤ 'z' then Char.ofNat (c.toNat - 32) else c
def lowerChar (c : Char) : Char := if 'A' ≤ c && c ≤ 'Z' then Char.ofNat (c.toNat + 32) else c

/-- `strings.Fields` -/
def fieldsAux : Str → Str → List Str
  | [], cur => if cur == [] then [] else [cur.reverse]
  | c :: r, cur => if isSpace c then (if cur == [] then fieldsAux r [] else cur.reverse :: fieldsAux r []) else fieldsAux r (c :: cur)
def fields (s : Str) : List Str := fieldsAux s []

/-- `titleFunc` on one word (ASCII case mapping, as for upper/lower) -/
def titleWord : Str → Str
  | [] => []
  | c :: r => upperChar c :: r.map lowerChar

/-- `len` of a Go string is its length in BYTES (UTF-8) -/
def utf8Len (s : Str) : Nat := s.foldl (fun n c => n + c.utf8Size) 0

/-- `int(f)` for a float64 given by its printed form (`%v`: digits, optional fraction, optional exponent): truncation toward zero.
    NaN, the infinities and values outside int64 give the smallest int64, as the amd64 conversion instruction does. -/
def floatTrunc (pr : Str) : Int :=
  let minInt : Int := -((2 : Int) ^ 63)
  let (neg, body) := match pr with | '-' :: r => (true, r) | '+' :: r => (false, r) | r => (false, r)
  let mant := body.takeWhile (fun c => c != 'e')
  let expPart := (body.dropWhile (fun c => c != 'e')).drop 1
  let ip := mant.takeWhile (fun c => c != '.')
  let fp := (mant.dropWhile (fun c => c != '.')).drop 1
  if ip.isEmpty || !ip.all isDigit || !fp.all isDigit then minInt
  else
    let e : Option Int := match expPart with
      | [] => some 0
      | '-' :: d => if d.isEmpty || !d.all isDigit then none else some (-(digitsToNat d : Int))
      | '+' :: d => if d.isEmpty || !d.all isDigit then none else some (digitsToNat d : Int)
      | d => if !d.all isDigit then none else some (digitsToNat d : Int)
    match e with
    | none => minInt
    | some e =>
      let digits : Nat := digitsToNat (ip ++ fp)
      let shift : Int := e - fp.length
      let mag : Nat := if shift ≥ 0 then (if shift > 40 then 10 ^ 40 * (digits + 1) else digits * 10 ^ shift.toNat) else digits / 10 ^ (-shift).toNat
      let v : Int := if neg then -(mag : Int) else mag
      if v < minInt || v ≥ (2 : Int) ^ 63 then minInt else v

def arityErr (want got : Nat) : Res Val :=
  .err "func" ("function expects ".toList ++ natToStr want ++ " arguments, got ".toList ++ natToStr got)

/-- the modelled part of `DefaultFuncMap` (all of type func(any) any / func(any, any) any): none = not registered -/
def callBuiltin (name : Str) (args : List Val) : Option (Res Val) :=
  let one (f : Val → Val) : Option (Res Val) := some (match args with | [a] => .ok (f a) | _ => arityErr 1 args.length)
  if name == "upper".toList then one (fun v => match v with | .str s => .str (s.map upperChar) | v => v)
  else if name == "lower".toList then one (fun v => match v with | .str s => .str (s.map lowerChar) | v => v)
  else if name == "title".toList then one (fun v => match v with | .str s => .str (joinWith [' '] ((fields s).map titleWord)) | v => v)
  else if name == "trim".toList then one (fun v => match v with | .str s => .str (trimSpace s) | v => v)
  else if name == "len".toList then one (fun v => match v with | .str s => .int .int (utf8Len s) | .list _ xs => .int .int xs.length | .map _ kvs => .int .int kvs.length | _ => .int .int 0)
  else if name == "int".toList then one (fun v => match v with
    | .int .int n => .int .int n
    | .int .int64 n => .int .int n
    | .float .float64 _ pr => .int .int (floatTrunc pr)
    | .str s => (match Call.parseInt64 s with | some n => .int .int n | none => .int .int 0)
    | _ => .int .int 0)
  else if name == "string".toList then one (fun v => .str v.sprint)
  else if name == "escape".toList then one (fun v => match v with | .str s => .str (escape s) | v => .str v.sprint)
  else if name == "default".toList then
    some (match args with | [v, d] => .ok (match v with | .nil => d | .str [] => d | v => v) | _ => arityErr 2 args.length)
  else none

def wrapErr (pre : Str) : Res Val → Res Val
  | .err c m => .err c (pre ++ m)
  | r => r

def mapArgs (P : Params) (s : Stack) : List Str → Res (List Val)
  | [] => .ok []
  | a :: r =>
    match resolveArgument P s a with
    | .ok v => (match mapArgs P s r with | .ok vs => .ok (v :: vs) | .err c m => .err c m | .panic x => .panic x | .hang x => .hang x | .fuel => .fuel)
    | .err c m => .err c m | .panic x => .panic x | .hang x => .hang x | .fuel => .fuel

/-- `evalSegment` (filter or expression); `input = none` means no input is prepended -/
def evalSegment (P : Params) (s : Stack) (seg : Seg) (input : Val) (prepend : Bool) : Res Val :=
  match seg with
  | .filter name args =>
    match mapArgs P s args with
    | .ok vs =>
      let all := if prepend then input :: vs else vs
      (match callBuiltin name all with
       | none => .err "func" ("function '".toList ++ name ++ "' not found".toList)
       | some r => wrapErr (name ++ "(): ".toList) r)
    | .err c m => .err c m | .panic x => .panic x | .hang x => .hang x | .fuel => .fuel
  | .expr e =>
    let env := s.envMap P.cfg
    let env := match input with | .nil => env | v => Scope.set env ['.'] v
    wrapErr ("in expression '".toList ++ e ++ "': ".toList) (P.exprEval e env)

def foldSegs (P : Params) (s : Stack) : List Seg → Val → Res Val
  | [], v => .ok v
  | seg :: r, v =>
    match evalSegment P s seg v true with
    | .ok v' => foldSegs P s r v'
    | e => e

/-- `evalPipe`; the head of a pipe that is itself `fn(args)` is evaluated first (fuel 1 level: a head cannot contain a pipe) -/
def evalPipe (P : Params) (s : Stack) (pe : PipeExpr) : Res Val :=
  if pe.initial == [] && pe.segs != [] then
    match pe.segs with
    | first :: rest =>
      (match evalSegment P s first .nil false with
       | .ok v => foldSegs P s rest v
       | e => e)
    | [] => .ok .nil
  else
    match s.resolve P.cfg pe.initial with
    | .ok (some v) => foldSegs P s pe.segs v
    | .ok none =>
      if Generated.isFunctionCall pe.initial && (matchFilterRe pe.initial).isSome then
        (match matchFilterRe (trimSpace pe.initial) with
         | some (name, args) =>
           (match evalSegment P s (.filter name (parseArgs args)) .nil false with
            | .ok v => foldSegs P s pe.segs v
            | e => e)
         | none => .err "pipe" [])
      else if pe.segs != [] then foldSegs P s pe.segs .nil
      else
        (match P.exprEval pe.initial (s.envMap P.cfg) with
         | .ok v => .ok v
         | .err _ _ => .err "pipe" ("variable '".toList ++ pe.initial ++ "' not found".toList)
         | r => r)
    | .panic x => .panic x | .err c m => .err c m | .hang x => .hang x | .fuel => .fuel

/-- does an expression go to the pipe interpreter? (`strings.Contains(expr, "|") || IsFunctionCall(expr) || IsComplexExpr(expr)`) -/
def routesToPipe (e : Str) : Bool := e.contains '|' || Generated.isFunctionCall e || Generated.isComplexExpr e

end Vuego
