/-
C08 / C07 — where a file's front-matter comes from: `extractFrontMatter` splits a file into front-matter text and template text without
losing or inventing a character, takes the FIRST closing fence, and leaves a file without an opening fence (or without a closing one)
entirely to the template.
-/
import Vuego.Model.FrontMatter
namespace Vuego.Props.C08
open Go Vuego Vuego.FrontMatter

theorem hasPrefix_split : ∀ (s p : Str), hasPrefix s p = true → s = p ++ s.drop p.length
  | _, [], _ => by simp
  | [], _ :: _, h => by simp [hasPrefix] at h
  | c :: s, d :: p, h => by
    simp only [hasPrefix, Bool.and_eq_true, beq_iff_eq] at h
    have := hasPrefix_split s p h.2
    simp only [List.cons_append, List.length_cons, List.drop_succ_cons]
    rw [← this, h.1]

/-- where `strings.Index` finds the pattern, the text IS what stands before it, the pattern, and what stands after it -/
theorem index_split : ∀ (s sub : Str) (i : Nat), index s sub = some i → s = s.take i ++ sub ++ s.drop (i + sub.length)
  | [], sub, i, h => by
    simp only [index] at h
    split at h
    · have : sub = [] := by simpa using ‹sub.isEmpty = true›
      subst this; simp at h; subst h; simp
    · simp at h
  | c :: s, sub, i, h => by
    simp only [index] at h
    split at h
    · rename_i hp
      simp at h; subst h
      have := hasPrefix_split (c :: s) sub hp
      simpa using this
    · rename_i hp
      cases hi : index s sub with
      | none => simp [hi] at h
      | some k =>
        simp [hi] at h; subst h
        have ih := index_split s sub k hi
        simp only [List.take_succ_cons, List.cons_append]
        have : k + 1 + sub.length = (k + sub.length) + 1 := by omega
        rw [this, List.drop_succ_cons]
        exact congrArg (c :: ·) ih

/-- NOTHING IS LOST OR INVENTED: when a file has front-matter, the file is exactly the opening fence, the front-matter text, the closing
    fence, at most one newline, and the template text -/
theorem extract_lossless (content yaml b : Str) (h : extract content = some (yaml, b)) :
    content = fenceOpen ++ yaml ++ fenceClose ++ b ∨ content = fenceOpen ++ yaml ++ fenceClose ++ '\n' :: b := by
  unfold extract at h
  split at h
  · simp at h
  · rename_i hp
    have hp' : hasPrefix content fenceOpen = true := by simpa using hp
    have hc := hasPrefix_split content fenceOpen hp'
    have hlen : fenceOpen.length = 3 := rfl
    rw [hlen] at hc
    cases hi : index (content.drop 3) fenceClose with
    | none => simp [hi] at h
    | some i =>
      simp only [hi, Option.some.injEq, Prod.mk.injEq] at h
      obtain ⟨hy, hb⟩ := h
      have hs := index_split (content.drop 3) fenceClose i hi
      have hfl : fenceClose.length = 4 := rfl
      rw [hfl] at hs
      rw [hy] at hs
      cases hrem : List.drop (i + 4) (List.drop 3 content) with
      | nil =>
        rw [hrem] at hb hs
        left; rw [hc, hs]; simp [← hb]
      | cons d r =>
        rw [hrem] at hb hs
        by_cases hd : d = '\n'
        · subst hd
          simp at hb
          right; rw [hc, hs, hb]; simp
        · have : b = d :: r := by
            rw [← hb]
            split
            · rename_i heq; simp at heq; exact absurd heq.1 hd
            · rfl
          left; rw [hc, hs, this]; simp

/-- a file that does not begin with the fence has no front-matter: all of it is template text -/
theorem no_opening_fence_no_front_matter (content : Str) (h : hasPrefix content fenceOpen = false) :
    extract content = none ∧ body content = content := by
  simp [extract, body, h]

/-- an opening fence that is never closed is template text too -/
theorem unclosed_fence_no_front_matter (content : Str) (h : index (content.drop 3) fenceClose = none) :
    extract content = none ∧ body content = content := by
  have : extract content = none := by
    unfold extract
    split
    · rfl
    · simp [h]
  simp [body, this]

/-- the front-matter ends at the FIRST closing fence: the front-matter text itself holds none -/
theorem index_take_none : ∀ (s sub : Str) (i : Nat), sub ≠ [] → index s sub = some i → ∀ j, j < i → hasPrefix (s.drop j) sub = false
  | [], sub, i, _, h, j, hj => by
    simp only [index] at h
    split at h
    · simp at h; omega
    · simp at h
  | c :: s, sub, i, hne, h, j, hj => by
    simp only [index] at h
    split at h
    · simp at h; omega
    · rename_i hp
      cases hi : index s sub with
      | none => simp [hi] at h
      | some k =>
        simp [hi] at h; subst h
        cases j with
        | zero => simpa using hp
        | succ j' =>
          simp only [List.drop_succ_cons]
          exact index_take_none s sub k hne hi j' (by omega)

theorem first_closing_fence (content yaml b : Str) (h : extract content = some (yaml, b)) :
    ∀ j, j < yaml.length → hasPrefix ((content.drop 3).drop j) fenceClose = false := by
  unfold extract at h
  split at h
  · simp at h
  · cases hi : index (content.drop 3) fenceClose with
    | none => simp [hi] at h
    | some i =>
      simp only [hi, Option.some.injEq, Prod.mk.injEq] at h
      intro j hj
      have hle : yaml.length ≤ i := by rw [← h.1]; simp [List.length_take]; omega
      exact index_take_none _ _ i (by decide) hi j (by omega)

/-! non-vacuity -/
example : extract "---\ntitle: T\nlayout: main\n---\n<p>x</p>\n".toList = some ("\ntitle: T\nlayout: main".toList, "<p>x</p>\n".toList) := by decide
example : extract "---\na: 1\n---<p>x</p>".toList = some ("\na: 1".toList, "<p>x</p>".toList) := by decide
example : extract "<p>---</p>\n---\n".toList = none := by decide
example : extract "---\nnever closed".toList = none := by decide
example : extract "---\na: 1\n---\n---\nb\n---\n".toList = some ("\na: 1".toList, "---\nb\n---\n".toList) := by decide

end Vuego.Props.C08
