/-
C09 — one engine serves any number of concurrent renders without races or cross-talk.
What a theorem can carry here, and what it cannot:
* proved: (a) the RW-lock invariant for EVERY trace of any number of threads (a write holder excludes every other holder), hence two
  accesses made under a common lock, the writer holding it exclusively, are never in progress together; (b) the access table regenerated
  from the source satisfies that discipline for every pair of conflicting accesses outside the documented set-up functions; (c) the only
  shared state a render reads besides its own inputs is the template cache, which is transparent (C15), so the value a render returns does
  not depend on what other renders did to the cache in between, in any interleaving of their cache steps.
* not expressible as a theorem about this model (PARTIAL): Go's memory model / sync.RWMutex / sync.Once / sync.Pool themselves (trusted),
  aliasing through pointers (a cached *html.Node reached by two renders; the caller's map) — for those the table has the regenerated facts
  `evaluatesDeepClone` / `callerDataCopied` (C10) and the check runs the real engine under the race detector.
-/
import Vuego.Model.Lockset
import Vuego.Generated.Locks
import Vuego.Generated.Purity
import Vuego.Generated.Escapes
import Vuego.Props.C15
namespace Vuego.Props.C09
open Vuego.Lockset

/-- functions that run before the engine is shared (constructors, options, registration — docs/concurrency.md: "immutable after setup") -/
def setupFns : List String :=
  ["NewVue", "NewFS", "init", "loadConfig", "WithFS", "WithComponents", "WithLessProcessor", "Vue.Funcs", "Vue.RegisterComponent",
   "Vue.RegisterNodeProcessor", "template.Fill", "template.Assign", "template.SetErr"]

/-- (b) the regenerated access table is disciplined: every pair of conflicting accesses to shared engine state made outside set-up is made
    under one common lock, the writer exclusively. Adding an unlocked read or write of a cache, or downgrading a Lock to RLock, breaks this. -/
theorem source_lock_discipline : disciplined setupFns Generated.accessTable = true := by decide

/-- which shared variables are written at all after set-up — exactly the three caches and the once-initialised parse context -/
theorem source_written_after_setup :
    writtenVars setupFns Generated.accessTable = ["ExprEvaluator.programs", "Vue.templateCache", "helpers.bodyNodeCache", "vuego.pathCache"] := by decide

/-- no package-level map is handed on (passed as an argument, assigned elsewhere, returned, put in a literal): such a map is one object
    shared by every render in the process, and its receiver may write through it - the scope stack clears and recycles every map it is
    given, which the table of direct accesses above cannot see. (Read from the source: every use of a package-level map in a function body.) -/
theorem source_no_package_map_escapes : Generated.escapingPackageRefs = [] := by decide

/-- the per-render copies that keep aliased data out of reach of other renders (see C10) -/
theorem source_copies_before_evaluation : Generated.evaluatesDeepClone = true ∧ Generated.callerDataCopied = true := by decide

/-- the render methods of a template value never hand the template's own variable stack to an evaluation: they read it (EnvMap, Lookup) or pass a
    `Copy()`. Evaluation pushes scopes and assigns variables; on a stack shared by the goroutines that use one template value that would be
    cross-talk and a data race (`RenderString` on a shared base template) -/
theorem source_render_works_on_stack_copy : Generated.renderReadsTemplateStackOnly = true := by decide

/-- … and a deep clone shares no attribute storage with the cached node: an `append` to a clone's attributes cannot reach the cache -/
theorem source_clone_owns_its_attributes : Generated.deepCloneCopiesAttrs = true := by decide

/-! (a) the lock invariant, for every trace -/

/-- a write holder is the only holder -/
def Excl (s : LState) : Prop := ∀ l t, (t, Mode.w) ∈ s l → s l = [(t, Mode.w)]

theorem excl_init : Excl LState.init := by intro l t h; simp [LState.init] at h

theorem excl_step (s : LState) (e : Ev) (hs : Excl s) (he : enabled s e) : Excl (apply s e) := by
  intro l t h
  cases e with
  | acq t' l' m =>
    simp only [apply] at h ⊢
    by_cases hl : l = l'
    · subst hl
      simp only [↓reduceIte] at h ⊢
      cases m with
      | w =>
        simp only [enabled] at he
        rw [he] at h ⊢
        simp only [List.mem_cons, Prod.mk.injEq, and_true, List.not_mem_nil, or_false] at h
        rw [h]
      | r =>
        simp only [enabled] at he
        simp only [List.mem_cons, Prod.mk.injEq, reduceCtorEq, and_false, false_or] at h
        exact absurd (he _ h) (by simp)
    · simp only [hl, ↓reduceIte] at h ⊢
      exact hs l t h
  | rel t' l' =>
    simp only [apply] at h ⊢
    by_cases hl : l = l'
    · subst hl
      simp only [↓reduceIte] at h ⊢
      have hm := List.mem_filter.mp h
      have := hs l t hm.1
      rw [this] at h ⊢
      simp only [List.filter_cons, List.filter_nil] at h ⊢
      split at h
      · rename_i hc; simp [hc]
      · simp at h
    · simp only [hl, ↓reduceIte] at h ⊢
      exact hs l t h

/-- for EVERY trace the lock permits — any number of threads, locks and steps — the invariant holds in the state reached -/
theorem excl_reachable (tr : List Ev) : ∀ s, Excl s → Valid s tr → Excl (run s tr) := by
  induction tr with
  | nil => intro s hs _; exact hs
  | cons e r ih =>
    intro s hs hv
    simp only [Valid] at hv
    simp only [run, List.foldl_cons]
    exact ih _ (excl_step s e hs hv.1) hv.2

/-- MAIN (a): in any reachable state, if thread t1 is inside a region where it holds lock `l` for writing and thread t2 is inside a region
    where it holds the same lock in any mode, they are the same thread: two accesses that `protectedPair` accepts, one of them a write,
    are never in progress at once. -/
theorem no_concurrent_conflict (tr : List Ev) (hv : Valid LState.init tr) (l : String) (t1 t2 : Nat) (m : Mode)
    (h1 : (t1, Mode.w) ∈ run LState.init tr l) (h2 : (t2, m) ∈ run LState.init tr l) : t1 = t2 ∧ m = Mode.w := by
  have := excl_reachable tr _ excl_init hv l t1 h1
  rw [this] at h2
  simp only [List.mem_cons, Prod.mk.injEq, List.not_mem_nil, or_false] at h2
  exact ⟨h2.1.symm, h2.2⟩

/-- what `protectedPair` buys: a conflicting protected pair always has a side that holds the common lock exclusively -/
theorem protected_conflict_has_exclusive_side (a b : Access) (hc : conflict a b = true) (hp : protectedPair a b = true) :
    a.lock = b.lock ∧ a.lock ≠ "" ∧ ((a.write = true ∧ a.excl = true) ∨ (b.write = true ∧ b.excl = true)) := by
  simp only [conflict, Bool.and_eq_true, Bool.or_eq_true, beq_iff_eq] at hc
  simp only [protectedPair, Bool.and_eq_true, bne_iff_ne, ne_eq, beq_iff_eq, Bool.or_eq_true, Bool.not_eq_eq_eq_not, Bool.not_true] at hp
  obtain ⟨⟨⟨h1, h2⟩, h3⟩, h4⟩ := hp
  refine ⟨h2, h1, ?_⟩
  rcases hc.2 with hw | hw
  · left; rcases h3 with h | h
    · rw [hw] at h; cases h
    · exact ⟨hw, h⟩
  · right; rcases h4 with h | h
    · rw [hw] at h; cases h
    · exact ⟨hw, h⟩

/-! (c) no cross-talk through the cache: N renders share one engine; the shared state they touch is the template cache, one locked step
    each. Whatever the interleaving of those steps — any order, any multiplicity, other renders' loads in between, files changing
    underneath under the cache's proviso — each render is answered exactly as a fresh engine would answer it alone. -/
theorem concurrent_eq_alone {C D : Type} (parse : C → Option D) (schedule : List (Cache.Op C))
    (hist : Go.Str → Nat → Option C) (s : Cache.State C D) (hi : C15.Inv parse hist s) (hw : C15.WFHist hist schedule) :
    C15.outputs parse true false s schedule = C15.freshOutputs parse s.fs schedule :=
  C15.cached_eq_fresh parse schedule hist s hi hw

/-! non-vacuity -/
example : Valid LState.init [.acq 1 "mu" .r, .acq 2 "mu" .r, .rel 1 "mu", .rel 2 "mu", .acq 3 "mu" .w, .rel 3 "mu"] := by
  simp [Valid, enabled, apply, LState.init]
example : ¬ Valid LState.init [.acq 1 "mu" .r, .acq 2 "mu" .w] := by
  simp [Valid, enabled, apply, LState.init]
/-- the discipline is not trivially true: an unlocked read next to a locked write is rejected -/
example : disciplined [] [{ var := "c", fn := "f", write := true, lock := "mu", excl := true }, { var := "c", fn := "g", write := false, lock := "", excl := false }] = false := by decide
example : disciplined [] [{ var := "c", fn := "f", write := true, lock := "mu", excl := false }] = false := by decide

end Vuego.Props.C09
