/-
C10 — output depends only on the call's own templates and data, byte for byte.
The state that outlives a render in the implementation is: the template cache, the global pools (scope maps, builders, nodes), and anything
reachable through pointers the render was handed (the cached DOM, the caller's data). The evaluator and serialiser models are pure functions
of (files, components, data) by construction — their agreement with the engine is what the correspondence streams of C01…C16 check byte for
byte — so what has to be shown is that each of those carriers cannot leak:
  cache        → transparent for every history (C15.cached_eq_fresh), restated below for two engines with different pasts;
  pools        → a pool whose `put` clears hands out empty objects whatever object the runtime picks (theorem over every get/put sequence and
                 every choice), with `put clears` read from the source;
  map order    → no `range` over a map in the engine feeds anything but map stores or a sorted slice (regenerated list, must be empty);
  aliasing     → the caller's map and the cached DOM are copied before evaluation (regenerated facts).
v-once bookkeeping starts empty in every render (evaluatePage, C16).
-/
import Vuego.Model.Eval
import Vuego.Generated.Purity
import Vuego.Generated.Parse
import Vuego.Generated.ProcessState
import Vuego.Props.C15
namespace Vuego.Props.C10
open Go Vuego

/-- map iteration order cannot reach the output: every `range` over a map in the engine and its helpers only stores into maps/scopes
    or fills a slice that is sorted before use. (The pinned tree lists evalAttributes, mergeStyles and setStyleProperty here.) -/
theorem source_no_order_sensitive_map_range : Generated.mapRangeSensitiveSites = [] := by decide

/-- the analysis looked at something -/
theorem source_map_ranges_seen : Generated.mapRangeSitesTotal ≥ 10 := by decide

/-- pooled objects go back cleared, and nodes are never put back at all -/
theorem source_pools_cleared :
    Generated.popClearsBeforePut = true ∧ Generated.bufferResetBeforePut = true ∧ Generated.nodePoolPuts = 0 ∧
    Generated.newNodeClears = ["Attr", "Data", "DataAtom", "FirstChild", "LastChild", "Namespace", "NextSibling", "Parent", "PrevSibling", "Type"] := by decide

/-- rendering works on copies: the caller's map is only read, the cached DOM is deep-cloned before processing and evaluation -/
theorem source_copies : Generated.callerDataCopied = true ∧ Generated.evaluatesDeepClone = true := by decide

/-- THE PROCESS-WIDE STATE THAT CHANGES AFTER INITIALISATION in the engine's packages (root, helpers, reflect, parser, formatter, markdown) is
    exactly: the three pools (scope maps, interpolation buffers, nodes — `source_pools_cleared` and the pool theorem below), the path cache
    (its lock discipline is C09's `source_lock_discipline`) and the fragment-context body node behind its `sync.Once`. Read-only tables
    (lookup maps, compiled expressions, byte-slice constants, tables filled by `init`) are not state and are not listed. Any other
    package-level variable that some function writes to — a cache, a memo table, a reused argument frame — is shared by every engine and
    every goroutine of the process: one render could reach another through it, so it needs a theorem of its own before this list may grow. -/
theorem source_process_wide_state : Generated.processWideState =
    ["helpers.bodyNodeCache", "helpers.bodyNodeOnce", "helpers.nodePool", "vuego.bufferPool", "vuego.mapPool", "vuego.pathCache"] := by decide

/-! ## pools -/

/-- a sync.Pool of scope maps: `get i` models the runtime's free choice (any pooled object, or a new one when `i` is out of range —
    which also covers the GC emptying the pool) -/
abbrev Pool := List Scope

def Pool.get (p : Pool) (i : Nat) : Scope × Pool :=
  match p[i]? with
  | some m => (m, p.eraseIdx i)
  | none => ([], p)

/-- Stack.Pop: the map is emptied (iff `clears`) and put back -/
def Pool.put (clears : Bool) (p : Pool) (m : Scope) : Pool := (if clears then [] else m) :: p

def Clean (p : Pool) : Prop := ∀ m ∈ p, m = []

inductive PoolOp where
  | get (choice : Nat)
  | put (dirty : Scope)     -- whatever the render left in the map

/-- run a sequence of pool operations, collecting what every `get` handed out -/
def runPool (clears : Bool) : Pool → List PoolOp → List Scope
  | _, [] => []
  | p, .get i :: r => (p.get i).1 :: runPool clears (p.get i).2 r
  | p, .put m :: r => runPool clears (Pool.put clears p m) r

theorem get_clean (p : Pool) (i : Nat) (h : Clean p) : (p.get i).1 = [] ∧ Clean (p.get i).2 := by
  unfold Pool.get
  cases hg : p[i]? with
  | none => exact ⟨rfl, h⟩
  | some m =>
    refine ⟨h m (List.mem_of_getElem? hg), ?_⟩
    intro x hx
    exact h x (List.mem_of_mem_eraseIdx hx)

theorem put_clean (p : Pool) (m : Scope) (h : Clean p) : Clean (Pool.put true p m) := by
  intro x hx
  simp only [Pool.put, ↓reduceIte, List.mem_cons] at hx
  rcases hx with rfl | hx
  · rfl
  · exact h x hx

/-- POOLS DO NOT LEAK: whatever earlier renders put back (any maps, any contents), in whatever order, and whichever pooled object the runtime
    picks at each `get`, every map handed out is empty — indistinguishable from a freshly made one. For every sequence of operations. -/
theorem pool_hands_out_empty (ops : List PoolOp) : ∀ p, Clean p → ∀ m ∈ runPool true p ops, m = [] := by
  induction ops with
  | nil => intro p _ m hm; simp [runPool] at hm
  | cons op r ih =>
    intro p hp m hm
    cases op with
    | get i =>
      simp only [runPool, List.mem_cons] at hm
      obtain ⟨h1, h2⟩ := get_clean p i hp
      rcases hm with rfl | hm
      · exact h1
      · exact ih _ h2 m hm
    | put d =>
      simp only [runPool] at hm
      exact ih _ (put_clean p d hp) m hm

/-- with the source's setting -/
theorem source_pool_hands_out_empty (ops : List PoolOp) (m : Scope) (hm : m ∈ runPool Generated.popClearsBeforePut [] ops) : m = [] := by
  rw [source_pools_cleared.1] at hm
  exact pool_hands_out_empty ops [] (by intro x hx; cases hx) m hm

/-- and it is the clearing that does it: without it a value of one render is visible in the next -/
theorem unclear_pool_leaks :
    runPool false [] [.put [(['k'], .str ['s','e','c','r','e','t'])], .get 0] = [[(['k'], .str ['s','e','c','r','e','t'])]] := by rfl

/-! ## history independence -/

/-- Two engines with DIFFERENT pasts (any two histories of renders, edits, deletions, failed loads) that now see the same files answer the
    same request identically: the parsed template each one evaluates is the one a fresh engine would parse now. -/
theorem same_files_same_template {C D : Type} (parse : C → Option D) (h1 h2 : Str → Nat → Option C) (s1 s2 : Cache.State C D)
    (i1 : C15.Inv parse h1 s1) (i2 : C15.Inv parse h2 s2) (hfs : s1.fs = s2.fs) (name : Str) :
    (Cache.loadCached parse true false s1.fs s1.cache name).1 = (Cache.loadCached parse true false s2.fs s2.cache name).1 := by
  rw [(C15.loadCached_eq_fresh parse h1 s1 i1 name).1, (C15.loadCached_eq_fresh parse h2 s2 i2 name).1, hfs]

/-- the whole render, as the models compose it: load through the cache, evaluate from a fresh context, serialise. Its result is a function
    of (current files, registered components, request data) alone: the engine's cache state — its entire past — does not occur on the right. -/
def renderVia {C : Type} (parse : C → Option (List Node)) (W : World) (fuel : Nat) (s : Cache.State C (List Node)) (file : Str) (stack : Stack) :
    Option (R (List Node)) :=
  ((Cache.loadCached parse true false s.fs s.cache file).1).map (fun dom => evaluatePage W fuel file dom stack)

theorem render_function_of_inputs {C : Type} (parse : C → Option (List Node)) (W : World) (fuel : Nat) (hist : Str → Nat → Option C)
    (s : Cache.State C (List Node)) (hi : C15.Inv parse hist s) (file : Str) (stack : Stack) :
    renderVia parse W fuel s file stack = (Cache.freshLoad parse s.fs file).map (fun dom => evaluatePage W fuel file dom stack) := by
  unfold renderVia
  rw [(C15.loadCached_eq_fresh parse hist s hi file).1]

/-- every render starts with empty v-once bookkeeping, whatever earlier renders saw -/
theorem seen_starts_empty (W : World) (fuel : Nat) (file : Str) (dom : List Node) (stack : Stack) :
    evaluatePage W fuel file dom stack = evalList W fuel { slots := [], chain := [file] } { stack := stack, seen := [] } (resolveTagsList W.comps dom) := rfl

/-! ## the compiled-expression cache

`ExprEvaluator.programs` memoises compilation. A memo table in front of a function OF ITS KEY ALONE is invisible: after any sequence of
earlier lookups a lookup returns what computing afresh returns. The source facts say the table is of that kind: the key of every store is
the function's only parameter, and the compilation reads nothing else (in particular not the environment of the evaluation at hand). -/

def memoStep {K V : Type} [BEq K] (f : K → V) (tbl : List (K × V)) (k : K) : List (K × V) × V :=
  match tbl.lookup k with
  | some v => (tbl, v)
  | none => ((k, f k) :: tbl, f k)

def MemoInv {K V : Type} [BEq K] (f : K → V) (tbl : List (K × V)) : Prop := ∀ k v, tbl.lookup k = some v → v = f k

theorem memoStep_sound {K V : Type} [BEq K] [LawfulBEq K] (f : K → V) (tbl : List (K × V)) (k : K) (h : MemoInv f tbl) :
    (memoStep f tbl k).2 = f k ∧ MemoInv f (memoStep f tbl k).1 := by
  unfold memoStep
  cases hl : tbl.lookup k with
  | some v => exact ⟨h k v hl, h⟩
  | none =>
    refine ⟨rfl, ?_⟩
    intro k' v' hk'
    simp only [List.lookup] at hk'
    cases hb : k' == k with
    | true =>
      simp only [hb] at hk'
      have : k' = k := by simpa using hb
      subst this
      exact (Option.some.inj hk').symm
    | false =>
      simp only [hb] at hk'
      exact h k' v' hk'

/-- whatever was evaluated before (any list of earlier keys), the cache answers like a fresh compilation -/
theorem memo_invisible {K V : Type} [BEq K] [LawfulBEq K] (f : K → V) :
    ∀ (earlier : List K) (tbl : List (K × V)), MemoInv f tbl → ∀ k, (memoStep f (earlier.foldl (fun t e => (memoStep f t e).1) tbl) k).2 = f k
  | [], tbl, h, k => (memoStep_sound f tbl k h).1
  | e :: r, tbl, h, k => by
    simp only [List.foldl_cons]
    exact memo_invisible f r _ (memoStep_sound f tbl e h).2 k

/-- the source's program cache is of that kind: stores are keyed by the only parameter, and the compilation reads only that parameter -/
theorem source_program_cache_keyed_by_all_inputs :
    Generated.programCacheKeys = Generated.programParams ∧ Generated.programCompileReads = Generated.programParams
      ∧ Generated.programParams = ["expression"] := by decide

/-! non-vacuity -/
example : (memoStep (fun n : Nat => n * 2) [(3, 6)] 3).2 = 6 ∧ (memoStep (fun n : Nat => n * 2) [(3, 6)] 4).2 = 8 := by decide
example : runPool true [] [.put [(['a'], .nil)], .put [(['b'], .nil)], .get 1, .get 0, .get 7] = [[], [], []] := by rfl

end Vuego.Props.C10
