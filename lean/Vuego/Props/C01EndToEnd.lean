/-
C01, end to end — from the TEMPLATE to the parser reading the rendered page, for every data.
The evaluator theorem (Lemmas/EvalWF: whatever the data, the output DOM takes its tag and attribute names from the templates; data reaches
text nodes, attribute values and escaped v-text content only) composed with the serialiser theorem for evaluated DOMs (Lemmas/RenderSinks).
The one sink the property exempts, `v-html`, is excluded by hypothesis (`TplList`), as are raw-text elements.
-/
import Vuego.Lemmas.EvalWF
import Vuego.Props.C01
namespace Vuego.Props.C01
open Go Vuego Html

/-- the serialiser theorem for evaluated DOMs (v-text content, flattened and kept templates included) -/
theorem render_tokens_evaluated (ns : List Node) (h : WFEList ns) : tokenize (render ns) = toksEList 0 ns := by
  have := run_renderEList escapesOnce ns h [] (by decide) 0
  simp only [tokenize, render, this]

/-- … and what a parser's element structure is made of depends on the DOM's shape alone -/
theorem skeleton_of_evaluated (ns : List Node) (h : WFEList ns) : skel (tokenize (render ns)) = shapeEList ns := by
  rw [render_tokens_evaluated ns h, skel_toksEList]

/-- WHAT THE EVALUATOR CAN PUT INTO A PAGE: for every world of component files, every page, every context of supplied and inherited slot
    content — all of them templates whose names are what a parser produces, not using `v-html` — and EVERY stack of data, the DOM the
    evaluator returns is a well-formed evaluated DOM: tag and attribute names come from the templates; the data occupies text nodes,
    attribute values and escaped v-text content, nothing else -/
theorem evaluated_page_is_wellformed (W : World) (hW : WorldOK W) (fuel : Nat) (file : Str) (dom : List Node) (stack : Stack)
    (hdom : TplList dom) (out : List Node) (st' : St) (h : evaluatePage W fuel file dom stack = .ok (out, st')) : WFEList out := by
  unfold evaluatePage at h
  exact (wfAt_all W hW fuel).list _ _ _ ⟨(fun sc hsc => by cases hsc), (fun e he => by cases he)⟩ (tpl_resolveTagsList _ _ hdom) out st' h

/-- DATA VALUES ARE INERT, END TO END: a parser reading the rendered page finds exactly the DOM the evaluator built — every element with
    exactly its visible attribute names, every text and attribute value read back as the characters the evaluator put there. No data value,
    whatever characters it holds, becomes a tag, an attribute name, or an element boundary. -/
theorem page_reads_back (W : World) (hW : WorldOK W) (fuel : Nat) (file : Str) (dom : List Node) (stack : Stack)
    (hdom : TplList dom) (out : List Node) (st' : St) (h : evaluatePage W fuel file dom stack = .ok (out, st')) :
    tokenize (render out) = toksEList 0 out ∧ skel (tokenize (render out)) = shapeEList out := by
  have hwf := evaluated_page_is_wellformed W hW fuel file dom stack hdom out st' h
  exact ⟨render_tokens_evaluated out hwf, skeleton_of_evaluated out hwf⟩

/-- the same for a LAYOUT of a page that handed it named slots (`extractSlotsFromDOM` of the page's DOM): also the content a page supplies
    to its layout — evaluated through a component of the layout, or placed as parsed by a `<slot>` of the layout itself — cannot carry a data
    value anywhere but into text and attribute values -/
theorem layout_reads_back (W : World) (hW : WorldOK W) (fuel : Nat) (file : Str) (dom pageDom : List Node) (stack : Stack)
    (hdom : TplList dom) (hpage : TplList pageDom) (out : List Node) (st' : St)
    (h : evaluateLayout W fuel file dom stack (extractPageSlots pageDom) = .ok (out, st')) :
    tokenize (render out) = toksEList 0 out ∧ skel (tokenize (render out)) = shapeEList out := by
  unfold evaluateLayout at h
  have hwf := (wfAt_all W hW fuel).list _ _ _ ⟨(fun sc hsc => by cases hsc), scopeOK_extractPageSlots hpage⟩ (tpl_resolveTagsList _ _ hdom) out st' h
  exact ⟨render_tokens_evaluated out hwf, skeleton_of_evaluated out hwf⟩

/-- the ids `assignSeenAttrs` stamps on v-once elements (what `Vue.Render` does to a page before evaluating it) keep a template a template -/
theorem assignSeenAttrs_keeps_template (file : Str) (dom : List Node) (h : TplList dom) : TplList (assignSeenAttrs file dom) :=
  tpl_assignIdsList file 0 dom h

/-! Non-vacuity: an element with a bound attribute, an interpolated one and `v-text`, inside a loop, satisfies the hypotheses (the same
    shape of argument works for any parsed template: every clause is decidable once the tag's first letter is named). -/
section
def demoPage : List Node :=
  [.elem (S "li") [(S "v-for", S "(i, x) in xs"), (S ":data-i", S "i"), (S "title", S "n {{ x }}"), (S "v-text", S "x")] []]
example : TplList demoPage := by
  refine ⟨⟨Or.inr ⟨⟨'l', ['i'], rfl, by decide, by decide, by decide⟩, by decide⟩, ⟨by decide, ?_⟩, trivial⟩, trivial⟩
  intro a ha
  simp only [List.mem_cons, List.mem_nil_iff, or_false] at ha
  rcases ha with rfl | rfl | rfl | rfl <;> exact ⟨⟨by decide, by decide, by decide⟩, ⟨by decide, by decide, by decide⟩⟩
end

end Vuego.Props.C01
