/-
C01 — Data values are inert: never parsed as markup nor evaluated as template code.
Part (a), structural inertness of the serialiser: theorems over ALL evaluated DOMs (any size, any strings in text and
attribute values). The serialiser model (Vuego/Model/Render.lean) calls the *regenerated* `escapeAttrValue`,
`shouldEscapeTextNode`, `shouldIgnoreAttr`, `isLiteralAttr`; the tokenizer (Vuego/Model/Html.lean) follows WHATWG §13.2.5.
Part (b), no re-evaluation at the sinks: see the theorems imported from Vuego/Props/C01Sinks.lean (evaluator model).
-/
import Vuego.Lemmas.Skeleton
namespace Vuego.Props.C01
open Go Vuego Html

/-- the serialiser's exemption from escaping is exactly the property's: text directly inside `script` and `style`, at both places where text
    is written (read from the conditions in renderNodeWithContext; a longer list — noscript, iframe, xmp, … — lets a value break out there) -/
theorem source_raw_text_exemption :
    Generated.rawTextTagSites ≠ [] ∧ ∀ site ∈ Generated.rawTextTagSites, site = ["script", "style"] := by decide

/-- source fact 1: attribute values are escaped unconditionally (no sniffing for "already escaped" content) -/
theorem attr_values_escaped_once : ∀ v : Str, Generated.escapeAttrValue v = escape v := by
  intro v; rfl

/-- source fact 2: outside script/style, a text node is written as `escape data` (skipping the call only when it is the identity) -/
theorem text_escaped_once : ∀ d : Str, renderTextData false d = escape d := by
  intro d
  simp only [renderTextData, Bool.false_eq_true, ↓reduceIte, Generated.shouldEscapeTextNode]
  by_cases h : Generated.needsHTMLEscape d = true
  · simp [h]
  · simp only [h, Bool.false_eq_true, ↓reduceIte]
    symm
    apply escape_of_no_special
    simp only [Generated.needsHTMLEscape] at h
    cases hf : firstSome d (fun c_i => if ((c_i == '&') || (c_i == '<') || (c_i == '>') || (c_i == '"') || (c_i == '\'') || (c_i == '\r')) then (some true) else none) with
    | some b =>
      -- the loop body only ever returns `true`
      exfalso
      rw [hf] at h
      simp only [] at h
      have : b = true := by
        clear h
        induction d with
        | nil => simp [firstSome] at hf
        | cons x r ih =>
          simp only [firstSome] at hf
          split at hf
          · rename_i r' hx
            split at hx
            · cases hx; cases hf; rfl
            · cases hx
          · exact ih hf
      rw [this] at h
      exact h rfl
    | none =>
      intro c hc
      have := firstSome_none d _ hf c hc
      simp only [special]
      split at this
      · cases this
      · rename_i hn
        simpa using hn

theorem escapesOnce : EscapesOnce := ⟨attr_values_escaped_once, text_escaped_once⟩

/-- MAIN THEOREM (structural inertness, and the attribute/text fidelity half of C02):
    for every well-formed evaluated DOM — whatever strings its text nodes and attribute values hold — an HTML tokenizer run
    over the serialiser's output finds exactly one start tag per element with exactly its visible attribute names and the
    *original* values, one end tag per element, and otherwise only characters (the indentation and the original text).
    Exemptions (as the property states them): `<template>`, script/style, evaluated v-html / v-text content. -/
theorem render_tokens (ns : List Node) (h : WFList ns) : tokenize (render ns) = toksList 0 ns := by
  have := run_renderList escapesOnce ns h [] (by decide) 0
  simp only [tokenize, render, this]

/-- COROLLARY (the property as stated): the elements and attribute names a parser finds do not depend on any text or
    attribute value — two DOMs of the same shape give the same skeleton, so a hostile value yields the same structure as a harmless word. -/
theorem skeleton_value_independent (ns ms : List Node) (hn : WFList ns) (hm : WFList ms)
    (hshape : shapeList ns = shapeList ms) :
    skel (tokenize (render ns)) = skel (tokenize (render ms)) := by
  rw [render_tokens ns hn, render_tokens ms hm, skel_toksList, skel_toksList, hshape]

/-- a value can only contribute characters: the skeleton of the output is the DOM's own element structure -/
theorem skeleton_is_dom_shape (ns : List Node) (h : WFList ns) : skel (tokenize (render ns)) = shapeList ns := by
  rw [render_tokens ns h, skel_toksList]

/-- what sniffing did (the pinned code before the repair): with "skip escaping when the text looks escaped",
    a value that contains `&` and `;` next to static `<b>` text comes out as a real element. Checked on the tokenizer model. -/
theorem sniffing_counterexample :
    skel (tokenize ("<p>".toList ++ "<b> &;".toList ++ "</p>".toList)) ≠ skel (tokenize ("<p>".toList ++ escape "<b> &;".toList ++ "</p>".toList)) := by
  decide

/-! Non-vacuity: a concrete hostile DOM satisfies the hypotheses, and the theorem's conclusion is the expected token list. -/
section
def hostile : List Node :=
  [.elem "div".toList [("title".toList, "\"><script>alert(1)</script>&amp;".toList), ("v-if".toList, "x".toList)]
    [.text "<b>x</b> &lt; {{secret}}".toList, .elem "br".toList [] []]]
def harmless : List Node :=
  [.elem "div".toList [("title".toList, "word".toList), ("v-if".toList, "x".toList)] [.text "word".toList, .elem "br".toList [] []]]
example : shapeList hostile = shapeList harmless := by decide
end

end Vuego.Props.C01
