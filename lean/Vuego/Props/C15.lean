/-
C15 — a long-lived engine renders what a fresh engine would after any file edits.
Model: Vuego/Model/Cache.lean. Quantifier: every history of writes (create / edit / recreate / make invalid), deletes and renders, of any length,
over any files, with any parser — under the cache's documented proviso that a content change comes with a modification time not used for that
file before. The zero time is a time like any other since fix `4453083`: a file whose modification time BECAME zero (an override deleted from
the upper layer of an overlay, revealing an embedded default) is re-read; the pinned rule answered from the stale entry.
-/
import Vuego.Model.Cache
import Vuego.Generated.CacheFacts
namespace Vuego.Props.C15
open Go Vuego.Cache

variable {C D : Type}

/-- the source treats a failed Stat as a miss (read from loadCachedWithFrontMatter's hit condition) -/
theorem source_stat_failure_is_miss : Generated.cacheStatFailureIsMiss = true := by decide

/-- the source answers from an entry only when the recorded modification time EQUALS the current one; a current time of zero is no wildcard -/
theorem source_zero_mtime_is_no_wildcard : Generated.cacheZeroMtimeIsHit = false := by decide

/-- the function has exactly two successful exits: the hit (the entry, under the condition above) and the miss (what this call has just read
    and parsed); a third way of answering — e.g. re-stamping an old entry because "the body did not change" — is not there -/
theorem source_two_ways_to_answer : Generated.cacheReturns = (2, 1, 1) := by decide

/-- the cache's invariant: an entry was produced from content that the file had at the recorded mtime; `hist n mt` remembers which
    content file `n` had at mtime `mt` (every write records it) -/
structure Inv (parse : C → Option D) (hist : Str → Nat → Option C) (s : State C D) : Prop where
  entry : ∀ n d mt, s.cache n = some (d, mt) → ∃ c, hist n mt = some c ∧ parse c = some d
  file : ∀ n f, s.fs n = some f → hist n f.mtime = some f.content

/-- (1) answering from the cache gives the same result as re-reading; a failed load leaves no entry behind — one step -/
theorem loadCached_eq_fresh (parse : C → Option D) (hist : Str → Nat → Option C) (s : State C D) (h : Inv parse hist s) (name : Str) :
    (loadCached parse true false s.fs s.cache name).1 = freshLoad parse s.fs name ∧
    Inv parse hist { s with cache := (loadCached parse true false s.fs s.cache name).2 } := by
  unfold loadCached freshLoad
  cases hfs : s.fs name with
  | none =>
    -- the file is gone: never a hit
    simp only [Option.isNone_none, Bool.and_self, Bool.not_true, Bool.false_and]
    cases hc : s.cache name with
    | none => exact ⟨rfl, ⟨h.entry, h.file⟩⟩
    | some e => obtain ⟨d, cmt⟩ := e; simp only [Bool.false_eq_true, ↓reduceIte]; exact ⟨trivial, ⟨h.entry, h.file⟩⟩
  | some f =>
    have hh := h.file name f hfs
    simp only [Option.isNone_some, Bool.false_and, Bool.not_false, Bool.true_and]
    cases hc : s.cache name with
    | none =>
      simp only []
      cases hp : parse f.content with
      | none => exact ⟨rfl, ⟨h.entry, h.file⟩⟩
      | some d =>
        refine ⟨rfl, ⟨?_, h.file⟩⟩
        intro n d' mt he
        simp only [upd] at he
        split at he
        · rename_i hn; subst hn
          simp only [Option.some.injEq, Prod.mk.injEq] at he
          obtain ⟨rfl, rfl⟩ := he
          exact ⟨f.content, hh, hp⟩
        · exact h.entry n d' mt he
    | some e =>
      obtain ⟨d, cmt⟩ := e
      simp only [Bool.false_or]
      by_cases heq : cmt = f.mtime
      · -- same mtime: the entry was made from this very content
        have hb : (cmt == f.mtime) = true := by simpa using heq
        simp only [hb, ↓reduceIte]
        obtain ⟨c, hcq, hpd⟩ := h.entry name d cmt hc
        rw [heq, hh] at hcq
        cases hcq
        exact ⟨hpd.symm, ⟨h.entry, h.file⟩⟩
      · have hb : (cmt == f.mtime) = false := by simpa using heq
        simp only [hb, Bool.false_eq_true, ↓reduceIte]
        cases hp : parse f.content with
        | none => exact ⟨rfl, ⟨h.entry, h.file⟩⟩
        | some d2 =>
          refine ⟨rfl, ⟨?_, h.file⟩⟩
          intro n d' mt he
          simp only [upd] at he
          split at he
          · rename_i hn; subst hn
            simp only [Option.some.injEq, Prod.mk.injEq] at he
            obtain ⟨rfl, rfl⟩ := he
            exact ⟨f.content, hh, hp⟩
          · exact h.entry n d' mt he

/-- a history respects the cache's proviso: every write of file `n` carries an mtime under which `n` never had OTHER content (zero included) -/
def WFHist : (Str → Nat → Option C) → List (Op C) → Prop
  | _, [] => True
  | hist, .write n c mt :: r => (hist n mt = none ∨ hist n mt = some c) ∧ WFHist (fun n' mt' => if n' = n ∧ mt' = mt then some c else hist n' mt') r
  | hist, _ :: r => WFHist hist r

def outputs (parse : C → Option D) (miss zeroHit : Bool) : State C D → List (Op C) → List (Option D)
  | _, [] => []
  | s, op :: r => match step parse miss zeroHit s op with | (s', some o) => o :: outputs parse miss zeroHit s' r | (s', none) => outputs parse miss zeroHit s' r

/-- what fresh engines would render at the same points of the history -/
def freshOutputs (parse : C → Option D) : FS C → List (Op C) → List (Option D)
  | _, [] => []
  | fs, .write n c mt :: r => freshOutputs parse (upd fs n (some { content := c, mtime := mt })) r
  | fs, .delete n :: r => freshOutputs parse (upd fs n none) r
  | fs, .render n :: r => freshLoad parse fs n :: freshOutputs parse fs r

/-- (2) MAIN THEOREM: at every point of ANY history the long-lived engine renders exactly what a newly created engine renders from the current files -/
theorem cached_eq_fresh (parse : C → Option D) (ops : List (Op C)) :
    ∀ (hist : Str → Nat → Option C) (s : State C D), Inv parse hist s → WFHist hist ops →
      outputs parse true false s ops = freshOutputs parse s.fs ops := by
  induction ops with
  | nil => intro hist s _ _; rfl
  | cons op r ih =>
    intro hist s hinv hwf
    cases op with
    | write n c mt =>
      simp only [WFHist] at hwf
      obtain ⟨hnew, hr⟩ := hwf
      simp only [outputs, step, freshOutputs]
      apply ih _ _ _ hr
      constructor
      · intro n' d mt' he
        obtain ⟨c', hc', hp⟩ := hinv.entry n' d mt' he
        refine ⟨c', ?_, hp⟩
        by_cases hk : n' = n ∧ mt' = mt
        · obtain ⟨rfl, rfl⟩ := hk
          simp only [and_self, ↓reduceIte]
          rcases hnew with hn | hn
          · rw [hn] at hc'; cases hc'
          · rw [hn] at hc'; exact hc'
        · simp only [hk, ↓reduceIte]; exact hc'
      · intro n' f hf
        simp only [upd] at hf
        split at hf
        · rename_i hn; subst hn
          simp only [Option.some.injEq] at hf; subst hf
          simp
        · have h2 := hinv.file n' f hf
          by_cases hk : n' = n ∧ f.mtime = mt
          · exact absurd hk.1 (by assumption)
          · simp only [hk, ↓reduceIte]; exact h2
    | delete n =>
      simp only [WFHist] at hwf
      simp only [outputs, step, freshOutputs]
      apply ih hist _ _ hwf
      constructor
      · exact hinv.entry
      · intro n' f hf
        simp only [upd] at hf
        split at hf
        · cases hf
        · exact hinv.file n' f hf
    | render n =>
      simp only [WFHist] at hwf
      obtain ⟨h1, h2⟩ := loadCached_eq_fresh parse hist s hinv n
      simp only [outputs, step, freshOutputs]
      rw [h1]
      congr 1
      exact ih hist _ h2 hwf

/-- a newly started engine satisfies the invariant (empty cache; `hist` is what the files hold now) -/
theorem init_inv (parse : C → Option D) (fs : FS C) :
    Inv parse (fun n mt => match fs n with | some f => if f.mtime = mt then some f.content else none | none => none) { fs := fs, cache := fun _ => none } := by
  constructor
  · intro n d mt he; cases he
  · intro n f hf
    have hf : fs n = some f := hf
    show (match fs n with | some f' => if f'.mtime = f.mtime then some f'.content else none | none => none) = some f.content
    rw [hf]; simp

/-- the pinned rule (a failed Stat counts as "cannot check, use the entry") is genuinely wrong: a deleted file is served from the cache -/
theorem stat_failure_hit_counterexample :
    let parse : Nat → Option Nat := some
    let s0 : State Nat Nat := { fs := fun n => if n = ['p'] then some { content := 7, mtime := 5 } else none, cache := fun _ => none }
    outputs parse false true s0 [.render ['p'], .delete ['p'], .render ['p']] = [some 7, some 7] ∧
    freshOutputs parse s0.fs [.render ['p'], .delete ['p'], .render ['p']] = [some 7, none] := by
  constructor <;> rfl

/-- the pinned rule "a current modification time of zero answers from any entry" is genuinely wrong: a file replaced by one without a
    modification time — the user's override deleted from the upper layer of an overlay, the embedded default (zero time) showing through — was
    served from the stale entry for ever (fix `4453083`); with the repaired rule the same history agrees with a fresh engine -/
theorem zero_mtime_hit_counterexample :
    let parse : Nat → Option Nat := some
    let s0 : State Nat Nat := { fs := fun n => if n = ['p'] then some { content := 7, mtime := 5 } else none, cache := fun _ => none }
    let h : List (Op Nat) := [.render ['p'], .write ['p'] 1 0, .render ['p']]
    outputs parse true true s0 h = [some 7, some 7] ∧ outputs parse true false s0 h = [some 7, some 1] ∧ freshOutputs parse s0.fs h = [some 7, some 1] := by
  refine ⟨?_, ?_, ?_⟩ <;> rfl

/-! non-vacuity: an edit / invalidate / recreate history satisfying the proviso (the last write carries the zero time) -/
example : WFHist (fun _ _ => (none : Option Nat)) [.write ['p'] 1 10, .render ['p'], .write ['p'] 2 11, .render ['p'], .delete ['p'], .render ['p'],   .write ['p'] 3 9, .render ['p'], .write ['p'] 4 0, .render ['p']] := by
  simp [WFHist]

end Vuego.Props.C15
