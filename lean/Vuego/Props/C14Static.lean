/-
C14 — "static attributes pass through unchanged and in place": for EVERY attribute list (static, interpolated, bound, content attributes mixed,
in any order) the evaluated list begins with the element's static attributes, under their own names, in source order; and a static attribute
without a mustache that no bound attribute of the element targets keeps its (trimmed) value. Bound-only names are appended after them.
-/
import Vuego.Props.C14
namespace Vuego.Props.C14
open Go Vuego

/-- a key `evalAttributes` carries over under its own name: the internal content attributes and every key that is not a binding -/
def isStaticKey (k : Str) : Bool := k == sVHtml || k == sVText || !(boundNameOf k != k)

/-- the first pass of `evalAttributes`, named (definitionally the fold inside the model) -/
def firstPassStep (P : Params) (s : Stack) (acc : Res (List Attr × List Str × Scope)) (a : Attr) : Res (List Attr × List Str × Scope) :=
    match acc with
    | .ok (newAttrs, order, results) =>
      let key := a.1
      let val := trimSpace a.2
      let boundName := boundNameOf key
      if key == sVHtml || key == sVText then .ok (newAttrs ++ [(key, val)], order, results)
      else if boundName != key then
        match wrapErr (S "error evaluating attr " ++ boundName ++ S ": ") (evalBoundAttribute P s boundName val) with
        | .ok v =>
          if !isTruthy v then .ok (newAttrs, order, results)
          else .ok (newAttrs, (if order.contains boundName then order else order ++ [boundName]), Scope.set results boundName v)
        | e => e.castErr
      else if Generated.containsInterpolation val then
        match interpolate P s val with
        | .ok t => .ok (newAttrs ++ [(key, t)], order, results)
        | .err c m => .err c (S "error evaluating attr " ++ boundName ++ S ": " ++ m)
        | e => e.castErr
      else .ok (newAttrs ++ [(key, val)], order, results)
    | e => e

/-- what the first pass guarantees for the static attribute `a` and the entry `b` standing for it -/
def Carried (a b : Attr) : Prop :=
  b.1 = a.1 ∧ ((a.1 == sVHtml || a.1 == sVText) = true ∨ Generated.containsInterpolation (trimSpace a.2) = false → b.2 = trimSpace a.2)

theorem foldl_not_ok (P : Params) (s : Stack) (l : List Attr) (e : Res (List Attr × List Str × Scope)) (he : ∀ x, e ≠ .ok x) :
    l.foldl (firstPassStep P s) e = e := by
  induction l with
  | nil => rfl
  | cons a r ih =>
    simp only [List.foldl_cons]
    have : firstPassStep P s e a = e := by
      cases e with
      | ok x => exact absurd rfl (he x)
      | err c m => rfl
      | panic x => rfl
      | hang x => rfl
      | fuel => rfl
    rw [this]; exact ih

theorem firstPass_shape (P : Params) (s : Stack) : ∀ (attrs : List Attr) (na0 : List Attr) (ord0 : List Str) (rs0 : Scope) (na : List Attr) (ord : List Str) (rs : Scope),
    attrs.foldl (firstPassStep P s) (.ok (na0, ord0, rs0)) = .ok (na, ord, rs) →
    ∃ tail, na = na0 ++ tail ∧ tail.length = (attrs.filter (fun a => isStaticKey a.1)).length ∧
      (∀ (i : Nat) (a : Attr), (attrs.filter (fun a => isStaticKey a.1))[i]? = some a → ∃ b, tail[i]? = some b ∧ Carried a b) ∧
      (∀ n ∈ ord, n ∈ ord0 ∨ ∃ b ∈ attrs, isStaticKey b.1 = false ∧ boundNameOf b.1 = n)
  | [], na0, ord0, rs0, na, ord, rs, h => by
    simp only [List.foldl_nil, Res.ok.injEq, Prod.mk.injEq] at h
    obtain ⟨rfl, rfl, rfl⟩ := h
    exact ⟨[], by simp, by simp, by simp, fun n hn => Or.inl hn⟩
  | a :: r, na0, ord0, rs0, na, ord, rs, h => by
    simp only [List.foldl_cons] at h
    -- what the step does with `a`
    have hstep : (isStaticKey a.1 = true ∧ ∃ b, Carried a b ∧ firstPassStep P s (.ok (na0, ord0, rs0)) a = .ok (na0 ++ [b], ord0, rs0)) ∨
        (isStaticKey a.1 = false ∧ ∃ ord1 rs1, firstPassStep P s (.ok (na0, ord0, rs0)) a = .ok (na0, ord1, rs1) ∧ ∀ n ∈ ord1, n ∈ ord0 ∨ n = boundNameOf a.1) ∨
        (∀ x, firstPassStep P s (.ok (na0, ord0, rs0)) a ≠ .ok x) := by
      unfold firstPassStep
      simp only []
      generalize wrapErr (S "error evaluating attr " ++ boundNameOf a.1 ++ S ": ") (evalBoundAttribute P s (boundNameOf a.1) (trimSpace a.2)) = r1
      generalize hr2 : interpolate P s (trimSpace a.2) = r2
      by_cases hck : (a.1 == sVHtml || a.1 == sVText) = true
      · left
        refine ⟨by unfold isStaticKey; rw [hck]; rfl, (a.1, trimSpace a.2), ⟨rfl, fun _ => rfl⟩, ?_⟩
        simp only [hck, ↓reduceIte]
      · have hck' : (a.1 == sVHtml || a.1 == sVText) = false := by simpa using hck
        simp only [hck', Bool.false_eq_true, ↓reduceIte]
        by_cases hbn : (boundNameOf a.1 != a.1) = true
        · right
          have hst : isStaticKey a.1 = false := by unfold isStaticKey; rw [hck', hbn]; rfl
          simp only [hbn, ↓reduceIte]
          cases r1 with
          | ok v =>
            left
            simp only []
            split
            · exact ⟨hst, ord0, rs0, rfl, fun n hn => Or.inl hn⟩
            · refine ⟨hst, _, _, rfl, ?_⟩
              intro n hn
              split at hn
              · exact Or.inl hn
              · rcases List.mem_append.mp hn with hn | hn
                · exact Or.inl hn
                · right; simpa using hn
          | err c m => right; intro x; simp [Res.castErr]
          | panic x => right; intro x; simp [Res.castErr]
          | hang x => right; intro x; simp [Res.castErr]
          | fuel => right; intro x; simp [Res.castErr]
        · have hbn' : (boundNameOf a.1 != a.1) = false := by simpa using hbn
          have hst : isStaticKey a.1 = true := by unfold isStaticKey; rw [hbn']; simp
          simp only [hbn', Bool.false_eq_true, ↓reduceIte]
          by_cases hci : Generated.containsInterpolation (trimSpace a.2) = true
          · simp only [hci, ↓reduceIte]
            cases r2 with
            | ok t =>
              left
              refine ⟨hst, (a.1, t), ⟨rfl, ?_⟩, rfl⟩
              intro hh
              rcases hh with hh | hh
              · rw [hck'] at hh; cases hh
              · rw [hci] at hh; cases hh
            | err c m => right; right; intro x; simp
            | panic x => right; right; intro x; simp [Res.castErr]
            | hang x => right; right; intro x; simp [Res.castErr]
            | fuel => right; right; intro x; simp [Res.castErr]
          · have hci' : Generated.containsInterpolation (trimSpace a.2) = false := by simpa using hci
            left
            simp only [hci', Bool.false_eq_true, ↓reduceIte]
            exact ⟨hst, (a.1, trimSpace a.2), ⟨rfl, fun _ => rfl⟩, rfl⟩
    rcases hstep with ⟨hst, b, hcar, heq⟩ | ⟨hst, ord1, rs1, heq, hord1⟩ | hbad
    · rw [heq] at h
      obtain ⟨tail, hna, hlen, hidx, hord⟩ := firstPass_shape P s r _ _ _ _ _ _ h
      refine ⟨b :: tail, by rw [hna]; simp, by simp [hst, hlen], ?_, ?_⟩
      · intro i x hx
        simp only [List.filter_cons, hst, ↓reduceIte] at hx
        cases i with
        | zero =>
          simp only [List.getElem?_cons_zero, Option.some.injEq] at hx
          subst hx
          exact ⟨b, by simp, hcar⟩
        | succ i =>
          simp only [List.getElem?_cons_succ] at hx ⊢
          exact hidx i x hx
      · intro n hn
        rcases hord n hn with h1 | ⟨b', hb', h2⟩
        · exact Or.inl h1
        · exact Or.inr ⟨b', List.mem_cons_of_mem _ hb', h2⟩
    · rw [heq] at h
      obtain ⟨tail, hna, hlen, hidx, hord⟩ := firstPass_shape P s r _ _ _ _ _ _ h
      refine ⟨tail, hna, by simp [hst, hlen], ?_, ?_⟩
      · intro i x hx
        simp only [List.filter_cons, hst, Bool.false_eq_true, ↓reduceIte] at hx
        exact hidx i x hx
      · intro n hn
        rcases hord n hn with h1 | ⟨b', hb', h2⟩
        · rcases hord1 n h1 with h0 | h0
          · exact Or.inl h0
          · exact Or.inr ⟨a, List.mem_cons_self .., hst, h0.symm⟩
        · exact Or.inr ⟨b', List.mem_cons_of_mem _ hb', h2⟩
    · rw [foldl_not_ok P s r _ hbad] at h
      exact absurd h (hbad _)

/-- `setAttr` never moves, adds in front or renames an entry; entries under other names are untouched -/
theorem setAttr_index (k v : Str) : ∀ (l : List Attr) (i : Nat) (b : Attr), l[i]? = some b →
    ∃ b', (setAttr l k v)[i]? = some b' ∧ b'.1 = b.1 ∧ (b.1 ≠ k → b' = b)
  | [], i, b, h => by simp at h
  | (k0, v0) :: r, i, b, h => by
    unfold setAttr
    by_cases hk : k0 = k
    · subst hk
      simp only [beq_self_eq_true, ↓reduceIte]
      cases i with
      | zero =>
        simp only [List.getElem?_cons_zero, Option.some.injEq] at h
        subst h
        exact ⟨(k0, v), by simp, rfl, fun hne => absurd rfl hne⟩
      | succ i =>
        simp only [List.getElem?_cons_succ] at h ⊢
        exact ⟨b, h, rfl, fun _ => rfl⟩
    · have hk' : (k0 == k) = false := by simpa using hk
      simp only [hk', Bool.false_eq_true, ↓reduceIte]
      cases i with
      | zero =>
        simp only [List.getElem?_cons_zero, Option.some.injEq] at h
        subst h
        exact ⟨(k0, v0), by simp, rfl, fun _ => rfl⟩
      | succ i =>
        simp only [List.getElem?_cons_succ] at h ⊢
        exact setAttr_index k v r i b h

/-- the second pass of `evalAttributes`, named -/
def secondPassStep (results : Scope) (na : List Attr) (name : Str) : List Attr :=
      let v := (Scope.get results name).getD .nil
      if hasAttr na name then
        let cur := getAttr na name
        if name == S "class" then setAttr na name (cur ++ ' ' :: v.sprint)
        else if name == S "style" then setAttr na name (mergeStyles cur v.sprint)
        else setAttr na name v.sprint
      else if isTruthy v then na ++ [(name, v.sprint)] else na

theorem secondPassStep_index (results : Scope) (na : List Attr) (name : Str) (i : Nat) (b : Attr) (h : na[i]? = some b) :
    ∃ b', (secondPassStep results na name)[i]? = some b' ∧ b'.1 = b.1 ∧ (b.1 ≠ name → b' = b) := by
  unfold secondPassStep
  simp only []
  split
  · split
    · exact setAttr_index _ _ _ _ _ h
    · split
      · exact setAttr_index _ _ _ _ _ h
      · exact setAttr_index _ _ _ _ _ h
  · split
    · refine ⟨b, ?_, rfl, fun _ => rfl⟩
      rw [List.getElem?_append_left]
      · exact h
      · exact (List.getElem?_eq_some_iff.mp h).1
    · exact ⟨b, h, rfl, fun _ => rfl⟩

theorem secondPass_index (results : Scope) : ∀ (order : List Str) (na : List Attr) (i : Nat) (b : Attr), na[i]? = some b →
    ∃ b', (order.foldl (secondPassStep results) na)[i]? = some b' ∧ b'.1 = b.1 ∧ (b.1 ∉ order → b' = b)
  | [], na, i, b, h => ⟨b, h, rfl, fun _ => rfl⟩
  | n :: r, na, i, b, h => by
    simp only [List.foldl_cons]
    obtain ⟨b1, h1, hk1, hv1⟩ := secondPassStep_index results na n i b h
    obtain ⟨b2, h2, hk2, hv2⟩ := secondPass_index results r _ i b1 h1
    refine ⟨b2, h2, hk2.trans hk1, ?_⟩
    intro hnot
    have hn : b.1 ≠ n := fun e => hnot (by simp [e])
    have hr : b.1 ∉ r := fun e => hnot (List.mem_cons_of_mem _ e)
    rw [hv2 (by rw [hk1]; exact hr), hv1 hn]

/-- STATIC ATTRIBUTES PASS THROUGH UNCHANGED AND IN PLACE. For every attribute list and every data stack: when `evalAttributes` succeeds,
    the i-th static attribute of the element (source order, bound attributes skipped) is the i-th attribute of the result, under its own
    name; and if it holds no mustache and no bound attribute of the element targets its name, with its own (trimmed) value. -/
theorem static_attrs_in_place (P : Params) (s : Stack) (attrs out : List Attr) (props : Scope)
    (h : evalAttributes P s attrs = .ok (out, props)) (i : Nat) (a : Attr)
    (ha : (attrs.filter (fun a => isStaticKey a.1))[i]? = some a) :
    ∃ b, out[i]? = some b ∧ b.1 = a.1 ∧
      ((∀ x ∈ attrs, isStaticKey x.1 = false → boundNameOf x.1 ≠ a.1) →
        ((a.1 == sVHtml || a.1 == sVText) = true ∨ Generated.containsInterpolation (trimSpace a.2) = false) → b.2 = trimSpace a.2) := by
  unfold evalAttributes at h
  simp only [] at h
  change (match attrs.foldl (firstPassStep P s) (Res.ok (([] : List Attr), ([] : List Str), ([] : Scope))) with
    | Res.ok (newAttrs, order, results) => (Res.ok (order.foldl (secondPassStep results) newAttrs, _) : Res (List Attr × Scope))
    | e => e.castErr) = _ at h
  cases hf : attrs.foldl (firstPassStep P s) (.ok ([], [], [])) with
  | ok x =>
    obtain ⟨na, ord, rs⟩ := x
    rw [hf] at h
    simp only [Res.ok.injEq, Prod.mk.injEq] at h
    obtain ⟨hout, _⟩ := h
    obtain ⟨tail, hna, _, hidx, hord⟩ := firstPass_shape P s attrs [] [] [] na ord rs hf
    simp only [List.nil_append] at hna
    subst hna
    obtain ⟨b, hb, hcar⟩ := hidx i a ha
    obtain ⟨b', hb', hk', hv'⟩ := secondPass_index rs ord na i b hb
    rw [← hout]
    refine ⟨b', hb', hk'.trans hcar.1, ?_⟩
    intro hnt hplain
    have hnotin : b.1 ∉ ord := by
      intro hin
      rcases hord _ hin with h0 | ⟨x, hx, hxs, hxn⟩
      · cases h0
      · exact hnt x hx hxs (by rw [hxn, hcar.1])
    rw [hv' hnotin]
    exact hcar.2 hplain
  | err c m => rw [hf] at h; simp [Res.castErr] at h
  | panic x => rw [hf] at h; simp [Res.castErr] at h
  | hang x => rw [hf] at h; simp [Res.castErr] at h
  | fuel => rw [hf] at h; simp [Res.castErr] at h

end Vuego.Props.C14
