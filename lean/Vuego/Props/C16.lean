/-
C16 — v-once emits each marked element exactly once per render, independently.
Model: the check at the top of `evaluate` (eval_core.go), assignSeenAttrs (vue.go), the `seen` set shared along the include chain.
-/
import Vuego.Lemmas.EvalInv
import Vuego.Lemmas.OnceMarks
import Vuego.Generated.Purity
namespace Vuego.Props.C16
open Go Vuego

/-- the bookkeeping map is made anew for every render context (read from NewVueContext): the model's `seen := []` at the start of
    evaluatePage is what the code does; a pooled or shared map would carry ids of an earlier — e.g. failed — render into the next one -/
theorem source_seen_made_per_render : Generated.seenMapMadePerRender = true := by decide

/-- (1) a marked element whose id was already seen in this render is skipped: the siblings are evaluated as if it were not there -/
theorem once_skips_when_seen (W : World) (f : Nat) (ctx : Ctx) (st : St) (tag : Str) (attrs : List Attr) (kids rest : List Node)
    (h1 : hasAttr attrs (S "v-once") = true) (h2 : hasAttr attrs (S "v-for") = false)
    (h3 : hasAttr attrs (S "v-if") = false) (h4 : hasAttr attrs (S "v-else-if") = false) (h5 : hasAttr attrs (S "v-else") = false)
    (hseen : getAttr attrs (S "v-once-id") ∈ st.seen) :
    evalList W (f + 1) ctx st (.elem tag attrs kids :: rest) = evalList W f ctx st rest := by
  have : st.seen.contains (getAttr attrs (S "v-once-id")) = true := by simpa using hseen
  have hh : onceHereOf attrs = true := by simp [onceHereOf, h1, h2, h3, h4, h5]
  simp only [evalList, hh, Bool.true_and, this, ↓reduceIte]

/-- … the same for an element that carries `v-pre`, whatever chain directives it also carries (v-pre switches them off) -/
theorem once_skips_when_seen_pre (W : World) (f : Nat) (ctx : Ctx) (st : St) (tag : Str) (attrs : List Attr) (kids rest : List Node)
    (h1 : hasAttr attrs (S "v-once") = true) (h2 : hasAttr attrs (S "v-for") = false) (hpre : hasAttr attrs (S "v-pre") = true)
    (hseen : getAttr attrs (S "v-once-id") ∈ st.seen) :
    evalList W (f + 1) ctx st (.elem tag attrs kids :: rest) = evalList W f ctx st rest := by
  have : st.seen.contains (getAttr attrs (S "v-once-id")) = true := by simpa using hseen
  have hh : onceHereOf attrs = true := by simp [onceHereOf, h1, h2, hpre]
  simp only [evalList, hh, Bool.true_and, this, ↓reduceIte]

/-- (2) the first visit marks the id: whatever happens afterwards in this render, the id stays in `seen` (the set only grows) … -/
theorem seen_only_grows (W : World) (f : Nat) (ctx : Ctx) (st st' : St) (nodes out : List Node)
    (hs : st.stack.scopes ≠ []) (h : evalList W f ctx st nodes = .ok (out, st')) : ∀ x ∈ st.seen, x ∈ st'.seen :=
  ((frameAt W f).list ctx st nodes out st' hs h).2

/-- … and a visited plain marked element is in `seen` once its evaluation returns -/
theorem once_marks_seen (W : World) (f : Nat) (ctx : Ctx) (st st' : St) (tag : Str) (attrs : List Attr) (kids rest out : List Node)
    (h1 : hasAttr attrs (S "v-once") = true) (h2 : hasAttr attrs (S "v-for") = false) (hpre : hasAttr attrs (S "v-pre") = true)
    (hnot : ¬ getAttr attrs (S "v-once-id") ∈ st.seen) (hs : st.stack.scopes ≠ [])
    (h : evalList W (f + 1) ctx st (.elem tag attrs kids :: rest) = .ok (out, st')) :
    getAttr attrs (S "v-once-id") ∈ st'.seen := by
  have hc : st.seen.contains (getAttr attrs (S "v-once-id")) = false := by simpa using hnot
  have hh : onceHereOf attrs = true := by simp [onceHereOf, h1, h2, hpre]
  simp only [evalList, hh, hc, Bool.and_false, Bool.false_eq_true, ↓reduceIte, hpre] at h
  obtain ⟨o, ho, _⟩ := prepend_ok h
  exact seen_only_grows W f ctx { st with seen := st.seen ++ [getAttr attrs (S "v-once-id")] } st' rest o hs ho _ (by simp)

/-- (2b) THE SAME FOR EVERY ELEMENT THE TEST APPLIES TO - plain, `<slot>`, `<template>`, `v-pre` - and whatever the element, its children and
    the siblings after it go on to do: once the evaluation of a sibling list that starts with a marked element returns, the element's id is
    in `seen` (it was there already, or this visit recorded it and nothing ever removes an id) -/
theorem once_marks_seen_every_element (W : World) (f : Nat) (ctx : Ctx) (st st' : St) (tag : Str) (attrs : List Attr) (kids rest out : List Node)
    (hh : onceHereOf attrs = true) (hs : st.stack.scopes ≠ [])
    (h : evalList W (f + 1) ctx st (.elem tag attrs kids :: rest) = .ok (out, st')) :
    getAttr attrs (S "v-once-id") ∈ st'.seen := by
  cases hc : st.seen.contains (getAttr attrs (S "v-once-id")) with
  | true => exact seen_only_grows W (f + 1) ctx st st' _ out hs h _ (by simpa using hc)
  | false => exact (frame_after_once_mark W f ctx st st' tag attrs kids rest out hh hc hs h).2 _ (by simp)

/-- the premises are met: a marked `v-pre` element, any world, any context - its first visit returns and records the id -/
example (W : World) (ctx : Ctx) (stack : Stack) :
    onceHereOf [(S "v-once", []), (S "v-once-id", S "p#1"), (S "v-pre", [])] = true ∧
    ∃ out st', evalList W 2 ctx { stack := stack, seen := [] } [.elem (S "i") [(S "v-once", []), (S "v-once-id", S "p#1"), (S "v-pre", [])] []] = .ok (out, st') ∧ S "p#1" ∈ st'.seen :=
  by
  have hh : onceHereOf [(S "v-once", []), (S "v-once-id", S "p#1"), (S "v-pre", [])] = true := by decide
  have hg : getAttr [(S "v-once", []), (S "v-once-id", S "p#1"), (S "v-pre", [])] (S "v-once-id") = S "p#1" := by decide
  refine ⟨hh, _, _, rfl, ?_⟩
  simp only [hh, ↓reduceIte, hg]
  simp

/-- (2c) EXACTLY ONCE: after a visit of a marked element has returned, EVERY later visit of that element in the same render - in any state
    that descends from the returned one (`seen` only grows), with any fuel, in any context, before any siblings - emits nothing for it -/
theorem once_second_visit_skips (W : World) (f g : Nat) (ctx ctx2 : Ctx) (st st' st'' : St) (tag : Str) (attrs : List Attr) (kids rest rest2 out : List Node)
    (hh : onceHereOf attrs = true) (hs : st.stack.scopes ≠ [])
    (h : evalList W (f + 1) ctx st (.elem tag attrs kids :: rest) = .ok (out, st'))
    (hlater : ∀ x ∈ st'.seen, x ∈ st''.seen) :
    evalList W (g + 1) ctx2 st'' (.elem tag attrs kids :: rest2) = evalList W g ctx2 st'' rest2 := by
  have hin := hlater _ (once_marks_seen_every_element W f ctx st st' tag attrs kids rest out hh hs h)
  have : st''.seen.contains (getAttr attrs (S "v-once-id")) = true := by simpa using hin
  simp only [evalList, hh, Bool.true_and, this, ↓reduceIte]

/-- (2d) the same for a `v-else-if` / `v-else` MEMBER that its chain selects: when the evaluation of the chain and of everything after it
    returns, the member's id is in `seen` - so by `once_on_chain_member` every later selection of that member renders nothing -/
theorem selected_member_marks_seen (W : World) (f : Nat) (ctx : Ctx) (st st' : St) (tag t : Str) (attrs a : List Attr) (kids k rest out : List Node) (n i : Nat)
    (hpre : hasAttr attrs (S "v-pre") = false) (hfor : hasAttr attrs (S "v-for") = false) (hif : hasAttr attrs (S "v-if") = true)
    (hsel : chainSelect (evalCondition W.P st.stack) (getAttr attrs (S "v-if")) rest = .ok (.member (i + 1), n))
    (hget : rest[i]? = some (.elem t a k))
    (h1 : hasAttr a (S "v-once") = true) (h2 : hasAttr a (S "v-for") = false) (hs : st.stack.scopes ≠ [])
    (h : evalList W (f + 1) ctx st (.elem tag attrs kids :: rest) = .ok (out, st')) :
    getAttr a (S "v-once-id") ∈ st'.seen := by
  have hh : onceHereOf attrs = false := by simp [onceHereOf, hpre, hif]
  cases hc : st.seen.contains (getAttr a (S "v-once-id")) with
  | true => exact seen_only_grows W (f + 1) ctx st st' _ out hs h _ (by simpa using hc)
  | false =>
    have hg : onceGate st a = some { st with seen := st.seen ++ [getAttr a (S "v-once-id")] } := by
      have hni : ¬ getAttr a (S "v-once-id") ∈ st.seen := by simpa using hc
      simp [onceGate, h1, h2, hni]
    have ih := frameAt W f
    simp only [evalList, hh, Bool.false_and, Bool.false_eq_true, ↓reduceIte, hpre, hfor, hif, hsel, bindE, hget, hg,
      Bool.not_true, Bool.true_and] at h
    obtain ⟨res, st1, hr, hk⟩ := bindR_ok h
    obtain ⟨o, ho, _⟩ := prepend_ok hk
    have f1 := ih.asElem _ _ _ _ _ _ _ (by exact hs) hr
    have f2 := ih.list _ _ _ _ _ (f1.1.nonempty (by exact hs)) ho
    exact f2.2 _ (f1.2 _ (by simp))

/-- (3) every render starts afresh: the evaluation of a page begins with an empty `seen` set -/
theorem fresh_per_render (W : World) (fuel : Nat) (file : Str) (dom : List Node) (stack : Stack) :
    evaluatePage W fuel file dom stack = evalList W fuel { slots := [], chain := [file] } { stack := stack, seen := [] } (resolveTagsList W.comps dom) := rfl

/-- (4) distinct marked elements never suppress one another: ids are `file#n` with `n` counting the marked elements of that file in
    document order, so the counter after numbering a forest is the number of marked elements numbered so far and never decreases -/
theorem ids_counter_monotone (file : Str) :
    (∀ (n : Nat) (x : Node), n ≤ (assignIdsNode file n x).2) ∧ (∀ (n : Nat) (xs : List Node), n ≤ (assignIdsList file n xs).2) := by
  suffices h : ∀ k, (∀ (n : Nat) (x : Node), x.size ≤ k → n ≤ (assignIdsNode file n x).2) ∧ (∀ (n : Nat) (xs : List Node), Node.sizeList xs ≤ k → n ≤ (assignIdsList file n xs).2) by
    exact ⟨fun n x => (h x.size).1 n x (Nat.le_refl _), fun n xs => (h (Node.sizeList xs)).2 n xs (Nat.le_refl _)⟩
  intro k
  induction k with
  | zero =>
    constructor
    · intro n x hk; cases x <;> simp [Node.size] at hk
    · intro n xs hk
      cases xs with
      | nil => simp [assignIdsList]
      | cons x r => cases x <;> simp [Node.sizeList, Node.size] at hk
  | succ k ih =>
    constructor
    · intro n x hk
      cases x with
      | elem tag attrs kids =>
        simp only [Node.size] at hk
        simp only [assignIdsNode]
        split
        · have := ih.2 (n + 1) kids (by omega); simp only []; omega
        · exact ih.2 n kids (by omega)
      | text d => simp [assignIdsNode]
      | comment d => simp [assignIdsNode]
      | doctype d => simp [assignIdsNode]
    · intro n xs hk
      cases xs with
      | nil => simp [assignIdsList]
      | cons x r =>
        simp only [Node.sizeList] at hk
        simp only [assignIdsList]
        have hx1 : 1 ≤ x.size := by cases x <;> simp [Node.size]
        have h2 : (assignIdsNode file n x).2 ≤ (assignIdsList file (assignIdsNode file n x).2 r).2 := ih.2 _ r (by omega)
        have h1 : n ≤ (assignIdsNode file n x).2 := by
          cases x with
          | elem tag attrs kids =>
            simp only [Node.size] at hk
            simp only [assignIdsNode]
            split
            · have := ih.2 (n + 1) kids (by omega); simp only []; omega
            · exact ih.2 n kids (by omega)
          | text d => simp [assignIdsNode]
          | comment d => simp [assignIdsNode]
          | doctype d => simp [assignIdsNode]
        omega

/-- a marked element gets the id `file#(n+1)` where `n` marked elements of that file precede it -/
theorem marked_element_id (file : Str) (n : Nat) (tag : Str) (attrs : List Attr) (kids : List Node) (h : hasAttr attrs (S "v-once") = true) :
    ∃ kids' m, assignIdsNode file n (.elem tag attrs kids) = (.elem tag (setAttr attrs (S "v-once-id") (file ++ '#' :: natToStr (n + 1))) kids', m) ∧ n + 1 ≤ m := by
  simp only [assignIdsNode, h, ↓reduceIte]
  exact ⟨_, _, rfl, (ids_counter_monotone file).2 (n + 1) kids⟩

/-- splitting at the first `#`: two texts `a#s`, `b#t` whose heads `a`, `b` contain no `#` are equal only if the heads are -/
theorem head_before_hash : ∀ (a b s t : Str), '#' ∉ a → '#' ∉ b → a ++ '#' :: s = b ++ '#' :: t → a = b
  | [], [], _, _, _, _, _ => rfl
  | [], y :: b, s, t, _, hb, h => by
    simp only [List.nil_append, List.cons_append, List.cons.injEq] at h
    exact absurd h.1.symm (fun e => hb (by simp [e]))
  | x :: a, [], s, t, ha, _, h => by
    simp only [List.nil_append, List.cons_append, List.cons.injEq] at h
    exact absurd h.1 (fun e => ha (by simp [e]))
  | x :: a, y :: b, s, t, ha, hb, h => by
    simp only [List.cons_append, List.cons.injEq] at h
    rw [h.1, head_before_hash a b s t (fun hm => ha (by simp [hm])) (fun hm => hb (by simp [hm])) h.2]

/-- THE ID NAMES THE FILE THE ELEMENT IS WRITTEN IN: ids assigned in two different files never coincide, whatever the ordinal positions
    (file names contain no `#`) — so two different components cannot suppress each other's v-once element, and one component reached
    through two different parents is one id (its own file's), emitted once -/
theorem ids_of_different_files_differ (f1 f2 : Str) (n m : Nat) (h1 : '#' ∉ f1) (h2 : '#' ∉ f2) (hne : f1 ≠ f2) :
    f1 ++ '#' :: natToStr (n + 1) ≠ f2 ++ '#' :: natToStr (m + 1) :=
  fun h => hne (head_before_hash f1 f2 _ _ h1 h2 h)

/-! non-vacuity: two marked elements in one file get different ids; the same element in two files too -/
example : assignSeenAttrs (S "p") [.elem (S "i") [(S "v-once", [])] [], .elem (S "b") [(S "v-once", [])] []] =
    [.elem (S "i") [(S "v-once", []), (S "v-once-id", S "p#1")] [], .elem (S "b") [(S "v-once", []), (S "v-once-id", S "p#2")] []] := by rfl

/-- (6) the rule also holds for an element that is a `v-else-if` / `v-else` member of a chain (it is reached only when the chain selects it):
    selected again after it was rendered once, it is skipped and the rest of the list goes on; the pinned code emitted it every time -/
theorem once_on_chain_member (st : St) (a : List Attr) (h1 : hasAttr a (S "v-once") = true) (h2 : hasAttr a (S "v-for") = false) :
    (getAttr a (S "v-once-id") ∈ st.seen → onceGate st a = none) ∧
    (getAttr a (S "v-once-id") ∉ st.seen → onceGate st a = some { st with seen := st.seen ++ [getAttr a (S "v-once-id")] }) := by
  constructor
  · intro hm
    simp [onceGate, h1, h2, hm]
  · intro hm
    simp [onceGate, h1, h2, hm]

end Vuego.Props.C16
