/-
C08 — every variable is chosen by one fixed precedence of data sources.
Model: Vuego/Model/Merge.lean with the merge orders of loadConfig / Fill / Vue.Render regenerated from the source.
-/
import Vuego.Model.Merge
import Vuego.Generated.MergeFacts
import Vuego.Props.C17
namespace Vuego.Props.C08
open Go Vuego Vuego.Merge

def goodCfg : MergeCfg :=
  { loadConfig := [.theme, .dataYml], fill := [.initialData, .passed, .frontMatter], render := [.callerData, .fileFrontMatter] }

/-- the file render of a template goes through Vue.Render, where the file's own front-matter is laid over the template's variables
    (`renderEnv` models exactly that call; a render path that bypasses it loses the top precedence level for values assigned after Load) -/
theorem source_template_render_via_vue_render : Generated.templateRendersViaVueRender = true := by decide

/-- the source merges in exactly these orders -/
theorem source_merge_orders : Generated.mergeCfg = goodCfg := by decide

/-- first source that defines the key -/
def firstOf : List M → Str → Option Val
  | [], _ => none
  | m :: r, k => match m k with | some v => some v | none => firstOf r k

theorem overlay_apply (a b : M) (k : Str) : overlay a b k = match b k with | some v => some v | none => a k := rfl

/-- the specification of the Fill/Assign layer after a call history: Fill replaces it (keeping the template's own front-matter on top),
    Assign sets one key, New keeps it, Load puts the loaded file's front-matter on top -/
def specLayer (E : Engine) : M × M → Call → M × M      -- (layer, current front-matter)
  | (_, fm), .fill passed => (overlay passed fm, fm)
  | (l, fm), .assign k v => (setKey l k v, fm)
  | (l, _), .new_ => (l, empty)
  | (l, _), .load f => (overlay l (E.fmOf f), E.fmOf f)

/-- invariant: the template's variables are the layer over data/*.yml over theme.yml -/
theorem vars_eq_layer_over_config (E : Engine) (calls : List Call) :
    ∀ (t : Tpl) (layer : M), (∀ k, t.vars k = firstOf [layer, E.dataYml, E.theme] k) →
      let r := calls.foldl (specLayer E) (layer, t.fm)
      (∀ k, (run goodCfg E t calls).vars k = firstOf [r.1, E.dataYml, E.theme] k) ∧ (run goodCfg E t calls).fm = r.2 := by
  induction calls with
  | nil => intro t layer h; exact ⟨h, rfl⟩
  | cons c rest ih =>
    intro t layer h
    simp only [run, List.foldl_cons]
    cases c with
    | fill passed =>
      apply ih
      intro k
      simp only [apply, pick, goodCfg, List.map_cons, List.map_nil, overlayAll, List.foldl_cons, List.foldl_nil, initialData, overlay_apply, empty,
        firstOf]
      cases t.fm k <;> cases passed k <;> cases E.dataYml k <;> cases E.theme k <;> rfl
    | assign k' v =>
      apply ih
      intro k
      simp only [apply, setKey, firstOf]
      split
      · rfl
      · have := h k; simp only [firstOf] at this; exact this
    | new_ =>
      exact ih { vars := t.vars, fm := empty } layer h
    | load f =>
      apply ih
      intro k
      simp only [apply, overlay_apply, firstOf]
      cases E.fmOf f k with
      | some v => rfl
      | none => have := h k; simp only [firstOf] at this; exact this

theorem renderEnv_good (E : Engine) (t : Tpl) (file k : Str) :
    renderEnv goodCfg E t file k = match E.fmOf file k with | some v => some v | none => t.vars k := by
  simp only [renderEnv, pick, goodCfg, List.map_cons, List.map_nil, overlayAll, List.foldl_cons, List.foldl_nil, overlay_apply, empty]
  cases E.fmOf file k <;> cases t.vars k <;> rfl

/-- MAIN THEOREM (the fixed precedence): after ANY history of Fill / Assign / New / Load calls starting from the base template, the value a
    rendered file sees for ANY key is the file's own front-matter, else the Fill/Assign layer, else data/*.yml, else theme.yml —
    a key absent from a higher source falls through to the next one. -/
theorem precedence (E : Engine) (calls : List Call) (file : Str) (k : Str) :
    renderEnv goodCfg E (run goodCfg E (base goodCfg E) calls) file k =
      firstOf [E.fmOf file, (calls.foldl (specLayer E) (empty, empty)).1, E.dataYml, E.theme] k := by
  have hbase : ∀ k, (base goodCfg E).vars k = firstOf [empty, E.dataYml, E.theme] k := by
    intro k
    simp only [base, pick, goodCfg, List.map_cons, List.map_nil, overlayAll, List.foldl_cons, List.foldl_nil, initialData, overlay_apply, empty, firstOf]
    cases E.dataYml k <;> cases E.theme k <;> rfl
  obtain ⟨hv, _⟩ := vars_eq_layer_over_config E calls (base goodCfg E) empty hbase
  rw [renderEnv_good]
  have := hv k
  have hfm : (base goodCfg E).fm = empty := rfl
  rw [hfm] at this
  simp only [firstOf] at this ⊢
  cases E.fmOf file k with
  | some v => rfl
  | none => simp only []; exact this

/-- a later Fill/Assign for the same key overrides an earlier one -/
theorem later_call_overrides (E : Engine) (l fm : M) (k : Str) (v1 v2 : Val) :
    (specLayer E (specLayer E (l, fm) (.assign k v1)) (.assign k v2)).1 k = some v2 := by
  simp [specLayer, setKey]

/-- New and Load return new template values: the parent's variables are untouched (the model is pure; aliasing in the Go code —
    Stack.Copy, toMapData returning the caller's map — is what the oracle and the C10 checks watch) -/
theorem new_load_leave_parent (cfg : MergeCfg) (E : Engine) (t : Tpl) (f : Str) :
    (apply cfg E t .new_).vars = t.vars ∧ ∀ k, E.fmOf f k = none → (apply cfg E t (.load f)).vars k = t.vars k := by
  refine ⟨rfl, ?_⟩
  intro k h
  simp [apply, overlay_apply, h]

/-- the same rule at every read position: `{{ }}`, bound attributes and v-html/v-text read through Stack.Lookup, conditions and other
    expressions through Stack.EnvMap — and the two agree on every name bound in a scope (C17), which is where all four sources live -/
theorem read_positions_agree (s : Stack) (k : Str) (v : Val) (hwf : ∀ m ∈ s.scopes, Scope.WF m)
    (hl : Stack.lookupScopes s.scopes.reverse k = some v) :
    Scope.get (s.envMap Vuego.goodCfg) k = some v ∧ Stack.lookup Vuego.goodCfg s k = .ok (some v) :=
  Vuego.Props.C17.envmap_agrees_on_scope_names s k v hwf hl

/-- AN EXPLICIT NULL IS A DEFINITION: a key that the page's front-matter sets to null (`k: ~`) is null for that page, whatever the
    Fill/Assign layer, data/*.yml and theme.yml define for it - presence, not non-nilness, decides which source wins -/
theorem explicit_null_in_front_matter_wins (E : Engine) (calls : List Call) (file k : Str) (h : E.fmOf file k = some .nil) :
    renderEnv goodCfg E (run goodCfg E (base goodCfg E) calls) file k = some .nil := by
  rw [precedence]; simp [firstOf, h]

/-- ... and one that the Fill/Assign layer sets to nil (`Fill(map{k: nil})`, `Assign(k, nil)`) hides the configuration files' values -/
theorem explicit_null_in_layer_wins (E : Engine) (calls : List Call) (file k : Str) (h0 : E.fmOf file k = none)
    (h : (calls.foldl (specLayer E) (empty, empty)).1 k = some .nil) :
    renderEnv goodCfg E (run goodCfg E (base goodCfg E) calls) file k = some .nil := by
  rw [precedence]; simp [firstOf, h0, h]

theorem assign_nil_defines_the_key (E : Engine) (l fm : M) (k : Str) : (specLayer E (l, fm) (.assign k .nil)).1 k = some .nil := by
  simp [specLayer, setKey]

/-- the read positions agree on a null as on any other value: the path walker and the merged expression environment both see nil -/
theorem null_read_positions_agree (s : Stack) (k : Str) (hwf : ∀ m ∈ s.scopes, Scope.WF m)
    (hl : Stack.lookupScopes s.scopes.reverse k = some .nil) :
    Scope.get (s.envMap Vuego.goodCfg) k = some .nil ∧ Stack.lookup Vuego.goodCfg s k = .ok (some .nil) :=
  read_positions_agree s k .nil hwf hl

/-- swapping two merge loops in Fill breaks the precedence (front-matter below the passed data) -/
theorem swapped_fill_counterexample :
    let E : Engine := { theme := empty, dataYml := empty, fmOf := fun _ => fun k => if k = ['k'] then some (.str ['f','m']) else none }
    let bad : MergeCfg := { goodCfg with fill := [.initialData, .frontMatter, .passed] }
    (run bad E (base bad E) [.load ['p'], .fill (fun k => if k = ['k'] then some (.str ['f','i','l','l']) else none)]).vars ['k'] = some (.str ['f','i','l','l']) := by
  rfl

end Vuego.Props.C08
