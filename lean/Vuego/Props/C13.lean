/-
C13 — an expression means the same everywhere; pipes compose left to right.
Model: the expression router (Vuego/Model/Pipe.lean, Interp.lean): which evaluator an expression string is sent to at each position,
with the regenerated IsComplexExpr / IsFunctionCall. expr-lang itself is the parameter `P.exprEval`; "the conventional evaluation" is
whatever that parameter returns — its agreement with a conventional reference evaluator on the documented grammar is checked by the
harness (reference evaluator written in Go) on every run.
-/
import Vuego.Model.Interp
import Vuego.Model.ExprMini
import Vuego.Lemmas.Stack
import Vuego.Props.C13Call
namespace Vuego.Props.C13
open Go Vuego

theorem match_fold_nil (P : Params) (s : Stack) (r : Res Val) :
    (match r with | .ok v => foldSegs P s [] v | e => e) = r := by
  cases r <;> rfl

theorem evalPipe_complex (P : Params) (s : Stack) (e : Str) (hc : Generated.isComplexExpr (trimSpace e) = true) :
    evalPipe P s (parsePipeExpr e) = wrapErr ("in expression '".toList ++ trimSpace e ++ "': ".toList) (P.exprEval (trimSpace e) (s.envMap P.cfg)) := by
  simp only [parsePipeExpr, hc, ↓reduceIte, evalPipe, evalSegment]
  simp only [beq_self_eq_true, bne_iff_ne, ne_eq, List.cons_ne_self, not_false_eq_true, ↓reduceIte, reduceCtorEq]
  exact match_fold_nil P s _

/-- (1) an operator expression (comparison, logical, spaced arithmetic, ternary — `IsComplexExpr`) reaches THE SAME evaluator with THE SAME
    environment in `{{ }}` … -/
theorem complex_in_text (P : Params) (s : Stack) (e : Str) (hc : Generated.isComplexExpr (trimSpace e) = true) (hce : Generated.isComplexExpr e = true) :
    evalMustache P s e = wrapErr ("in expression '{{ ".toList ++ e ++ " }}': ".toList)
      (wrapErr ("in expression '".toList ++ trimSpace e ++ "': ".toList) (P.exprEval (trimSpace e) (s.envMap P.cfg))) := by
  have hr : routesToPipe e = true := by simp [routesToPipe, hce]
  simp only [evalMustache, hr, ↓reduceIte, evalPipe_complex P s e hc]

/-- … in a bound attribute … -/
theorem complex_in_bound_attr (P : Params) (s : Stack) (name e : Str) (hc : Generated.isComplexExpr (trimSpace e) = true)
    (hni : Generated.containsInterpolation (trimSpace e) = false) (hno : ¬ (hasPrefix (trimSpace e) ['{'] = true ∧ hasSuffix (trimSpace e) ['}'] = true))
    (htt : trimSpace (trimSpace e) = trimSpace e) :
    evalBoundAttribute P s name e = wrapErr ("in expression '".toList ++ trimSpace e ++ "': ".toList) (P.exprEval (trimSpace e) (s.envMap P.cfg)) := by
  have hr : routesToPipe (trimSpace e) = true := by simp [routesToPipe, hc]
  have hob : (hasPrefix (trimSpace e) ['{'] && hasSuffix (trimSpace e) ['}']) = false := by
    cases h1 : hasPrefix (trimSpace e) ['{'] <;> cases h2 : hasSuffix (trimSpace e) ['}'] <;> simp_all
  have := evalPipe_complex P s (trimSpace e) (by rw [htt]; exact hc)
  rw [htt] at this
  simp only [evalBoundAttribute, hni, Bool.false_eq_true, ↓reduceIte, hob, hr, this]

/-- … and in `v-if` / `v-else-if` / `v-show` (all three go through evalCondition): the condition is the truthiness of that same value.
    (`===`/`!==` are normalised before the call here and inside the evaluator everywhere else.) -/
theorem complex_in_condition (P : Params) (s : Stack) (e : Str) (v : Val)
    (hn : ExprNorm.normalize (trimSpace e) = trimSpace e) (hc : Generated.isComplexExpr (trimSpace e) = true)
    (hv : P.exprEval (trimSpace e) (s.envMap P.cfg) = .ok v) :
    evalCondition P s e = .ok (isTruthy v) := by
  have hf : isTemplateFuncCall (trimSpace e) = false := by simp [isTemplateFuncCall, hc]
  simp [evalCondition, hn, hf, hv]

/-- (2) a pipe is a LEFT FOLD: `x | f | g(a)` applies the segments left to right, each receiving the previous value as its first argument -/
theorem pipe_is_left_fold (P : Params) (s : Stack) (initial : Str) (segs : List Seg) (v : Val)
    (hi : initial ≠ []) (hr : s.resolve P.cfg initial = .ok (some v)) :
    evalPipe P s { initial := initial, segs := segs } = foldSegs P s segs v := by
  have : (initial == []) = false := by simpa using hi
  simp [evalPipe, this, hr]

theorem foldSegs_cons (P : Params) (s : Stack) (seg : Seg) (rest : List Seg) (v v' : Val) (h : evalSegment P s seg v true = .ok v') :
    foldSegs P s (seg :: rest) v = foldSegs P s rest v' := by
  simp [foldSegs, h]

/-- a filter segment calls the registered function with the piped value FIRST, then the resolved arguments -/
theorem filter_receives_piped_value_first (P : Params) (s : Stack) (name : Str) (args : List Str) (input : Val) (vs : List Val) (r : Res Val)
    (ha : mapArgs P s args = .ok vs) (hf : callBuiltin name (input :: vs) = some r) :
    evalSegment P s (.filter name args) input true = wrapErr (name ++ "(): ".toList) r := by
  simp [evalSegment, ha, hf]

/-- (3) an unknown function fails the evaluation with an error that names it … -/
theorem unknown_function_error_names_it (P : Params) (s : Stack) (name : Str) (args : List Str) (input : Val) (vs : List Val) (b : Bool)
    (ha : mapArgs P s args = .ok vs) (hf : ∀ xs, callBuiltin name xs = none) :
    evalSegment P s (.filter name args) input b = .err "func" ("function '".toList ++ name ++ "' not found".toList) := by
  simp [evalSegment, ha, hf]

/-- … a wrong argument count, or an error returned by the function, is reported prefixed with `name():` -/
theorem function_error_is_prefixed (name : Str) (c : String) (m : Str) :
    wrapErr (name ++ "(): ".toList) (.err c m : Res Val) = .err c (name ++ "(): ".toList ++ m) := rfl

example : callBuiltin "upper".toList [] = some (arityErr 1 0) := by rfl

/-- the built-in `len` of a string counts BYTES of its UTF-8 form (as Go's `len`), so a character outside ASCII counts more than once -/
theorem len_of_string_is_byte_length (s : Str) : callBuiltin "len".toList [.str s] = some (.ok (.int .int (utf8Len s))) := by rfl

theorem utf8Len_append (a b : Str) : utf8Len (a ++ b) = utf8Len a + utf8Len b := by
  have h : ∀ (l : Str) (acc : Nat), l.foldl (fun n c => n + c.utf8Size) acc = acc + l.foldl (fun n c => n + c.utf8Size) 0 := by
    intro l
    induction l with
    | nil => intro acc; simp
    | cons c r ih => intro acc; simp only [List.foldl_cons]; rw [ih (acc + c.utf8Size), ih (0 + c.utf8Size)]; omega
  unfold utf8Len
  rw [List.foldl_append, h b]

/-- ... and never less than the number of characters -/
theorem length_le_utf8Len (s : Str) : s.length ≤ utf8Len s := by
  induction s with
  | nil => simp [utf8Len]
  | cons c r ih =>
    have h1 : utf8Len (c :: r) = utf8Len [c] + utf8Len r := utf8Len_append [c] r
    have h2 : utf8Len [c] = c.utf8Size := by simp [utf8Len]
    have h3 : 1 ≤ c.utf8Size := Char.utf8Size_pos c
    simp only [List.length_cons]; omega

/-- the built-in `int` of a string of decimal digits is the number they spell; of anything that is no number it is 0 -/
theorem int_of_digit_string (d : Str) (hne : d ≠ []) (hd : d.all isDigit = true) (hlen : d.length ≤ 18) :
    callBuiltin "int".toList [.str d] = some (.ok (.int .int (digitsToNat d))) := by
  have h := Vuego.Props.C13Call.parseInt64_of_digits d hne hd hlen
  have e : callBuiltin "int".toList [.str d] = some (.ok (match Call.parseInt64 d with | some n => .int .int n | none => .int .int 0)) := by rfl
  rw [e, h]

theorem int_of_other_values_is_zero (v : Val) (h : match v with | .int .int _ | .int .int64 _ | .float .float64 _ _ | .str _ => False | _ => True) :
    callBuiltin "int".toList [v] = some (.ok (.int .int 0)) := by
  cases v with
  | int k n => cases k <;> first | rfl | exact h.elim
  | float k z p => cases k <;> first | rfl | exact h.elim
  | str s => exact h.elim
  | _ => rfl

/-- `int` of a float truncates toward zero (the float is carried by its printed form) -/
example : floatTrunc "2.5".toList = 2 ∧ floatTrunc "-2.5".toList = -2 ∧ floatTrunc "1e+06".toList = 1000000 ∧ floatTrunc "1.5e-07".toList = 0
    ∧ floatTrunc "123456.789".toList = 123456 ∧ floatTrunc "NaN".toList = -9223372036854775808 ∧ floatTrunc "1e+30".toList = -9223372036854775808 := by decide

/-- RECORDED FINDING `pipe-in-condition-unsupported`: a pipe inside a condition is not sent to the pipe interpreter; when expr-lang rejects it
    and the text does not resolve as a path, the condition is silently false (pinned by TestEvalCondition_ExprCompilationFailureFallback) -/
theorem pipe_in_condition_counterexample :
    let P : Params := { exprEval := fun _ _ => .err "expr" [], cfg := Vuego.goodCfg }  -- an evaluator that rejects the text, as expr-lang does
    let s : Stack := { scopes := [[("s".toList, .str "hello".toList)]], root := .nil }
    evalCondition P s "s | upper".toList = .ok false ∧ evalMustache P s "s | upper".toList = .ok (.str "HELLO".toList) := by
  constructor <;> rfl

/-- the repaired call matcher (fix a7a9ff0): text whose first parenthesis closes before the end — `f(a)OP…` for ANY `a` free of
    parentheses and quotes and ANY continuation — is never taken for one call -/
theorem argsBalanced_early_close (a rest : Str) (ha : ∀ c ∈ a, c ≠ '(' ∧ c ≠ ')' ∧ c ≠ '"' ∧ c ≠ '\'') :
    argsBalanced (a ++ ')' :: rest) 0 none = false := by
  induction a with
  | nil => simp [argsBalanced]
  | cons c r ih =>
    obtain ⟨h1, h2, h3, h4⟩ := ha c (by simp)
    have : argsBalanced (c :: (r ++ ')' :: rest)) 0 none = argsBalanced (r ++ ')' :: rest) 0 none := by
      simp [argsBalanced, h1, h2, h3, h4]
    rw [List.cons_append, this]
    exact ih (fun x hx => ha x (by simp [hx]))

example : matchFilterRe "upper(s)+upper(s)".toList = none := by decide
example : matchFilterRe "add(double(n), m)".toList = some ("add".toList, "double(n), m".toList) := by decide
example : matchFilterRe "f(')')".toList = some (['f'], "')'".toList) := by decide

/-- an argument that is a variable name is the variable — also for the one-letter names `t` and `f`, which the pinned code read as the booleans
    strconv.ParseBool accepts (so `money(f)` received `false`) -/
theorem argument_named_f_is_the_variable (P : Params) (s : Stack) (v : Val) (h : s.resolve P.cfg ['f'] = .ok (some v)) :
    resolveArgument P s ['f'] = .ok v := by
  simp [resolveArgument, trimSpace, trimLeft, trimRight, isSpace, atoi, isDigit, parseSimpleFloat, splitFirst, List.span, List.span.loop, parseBool, h]

/-- a quoted argument is the text between the quotes — whatever that text spells (a variable name, digits, true, nothing at all): it is never
    looked up, parsed as a number or dropped (fix cb2a50f: parseArgs keeps the quotes, so this rule of resolveArgument is reached) -/
theorem quoted_argument_is_literal (P : Params) (s : Stack) (t : Str) :
    resolveArgument P s ('"' :: t ++ ['"']) = .ok (.str t) := by
  have htrim : trimSpace ('"' :: t ++ ['"']) = '"' :: t ++ ['"'] := by
    have hq : isSpace '"' = false := by decide
    simp [trimSpace, trimLeft, trimRight, hq, List.reverse_append]
  have hlast : ('"' :: (t ++ ['"'])).getLast? = some '"' := by
    have : '"' :: (t ++ ['"']) = ('"' :: t) ++ ['"'] := rfl
    rw [this, List.getLast?_append]; simp
  simp only [resolveArgument, htrim]
  simp [hlast]

/-- the same for a literal written in single quotes -/
theorem single_quoted_argument_is_literal (P : Params) (s : Stack) (t : Str) :
    resolveArgument P s ('\'' :: t ++ ['\'']) = .ok (.str t) := by
  have htrim : trimSpace ('\'' :: t ++ ['\'']) = '\'' :: t ++ ['\''] := by
    have hq : isSpace '\'' = false := by decide
    simp [trimSpace, trimLeft, trimRight, hq, List.reverse_append]
  have hlast : ('\'' :: (t ++ ['\''])).getLast? = some '\'' := by
    have : '\'' :: (t ++ ['\'']) = ('\'' :: t) ++ ['\''] := rfl
    rw [this, List.getLast?_append]; simp
  simp only [resolveArgument, htrim]
  simp [hlast]

/-- exactly ONE pair of quotes is the literal's own: quote characters at the edges of its text - of either kind - are text
    (`"'n/a'"` is the five characters `'n/a'`, `'"'` is one double quote, `"'s profile"` begins with an apostrophe) -/
theorem literal_keeps_its_edge_quotes (P : Params) (s : Stack) :
    resolveArgument P s "\"'n/a'\"".toList = .ok (.str "'n/a'".toList) ∧
    resolveArgument P s "'\"'".toList = .ok (.str "\"".toList) ∧
    resolveArgument P s "\"'s profile\"".toList = .ok (.str "'s profile".toList) ∧
    resolveArgument P s "'say \"hi\"'".toList = .ok (.str "say \"hi\"".toList) :=
  ⟨quoted_argument_is_literal P s "'n/a'".toList, single_quoted_argument_is_literal P s "\"".toList,
   quoted_argument_is_literal P s "'s profile".toList, single_quoted_argument_is_literal P s "say \"hi\"".toList⟩

/-- inside a literal opened by `q` every character other than `q` — the other kind of quote and commas included — belongs to the literal;
    only `q` closes it -/
theorem literal_scanned_to_its_own_quote (q : Char) (t rest cur : Str) (acc : List Str) (hq : ∀ c ∈ t, c ≠ q) :
    parseArgsAux (t ++ q :: rest) cur (some q) acc = parseArgsAux rest (cur ++ t ++ [q]) none acc := by
  induction t generalizing cur with
  | nil => simp [parseArgsAux]
  | cons c r ih =>
    have hc : (c == q) = false := by simpa using hq c (by simp)
    simp only [List.cons_append, parseArgsAux, hc, Bool.false_eq_true, ↓reduceIte]
    rw [ih (cur ++ [c]) (fun x hx => hq x (by simp [hx]))]
    simp

/-- … so a double-quoted literal followed by a comma is ONE argument, whatever apostrophes and commas it contains, and the arguments
    after it are split as if it were not there -/
theorem quoted_literal_is_one_argument (t rest : Str) (acc : List Str) (hq : ∀ c ∈ t, c ≠ '"') :
    parseArgsAux ('"' :: t ++ '"' :: ',' :: rest) [] none acc = parseArgsAux rest [] none (acc ++ [trimSpace ('"' :: t ++ ['"'])]) := by
  have h1 : parseArgsAux ('"' :: t ++ '"' :: ',' :: rest) [] none acc = parseArgsAux (t ++ '"' :: ',' :: rest) ['"'] (some '"') acc := by
    simp [parseArgsAux]
  rw [h1, literal_scanned_to_its_own_quote '"' t (',' :: rest) ['"'] acc hq]
  have hne : (['"'] ++ t ++ ['"'] == []) = false := by simp
  simp [parseArgsAux, hne]

example : parseArgs "\"it's, you\", 'a \"b\", c', x".toList = ["\"it's, you\"".toList, "'a \"b\", c'".toList, "x".toList] := by decide

example : parseArgs "\"s\", '', x".toList = ["\"s\"".toList, "''".toList, "x".toList] := by decide

/-- PARTIAL statement of "same value wherever it is allowed": it holds for operator expressions (above) and for plain paths … -/
theorem path_same_in_text_and_attr (P : Params) (s : Stack) (e : Str) (v : Val) (hr : routesToPipe e = false)
    (hni : Generated.containsInterpolation e = false) (hno : (hasPrefix e ['{'] && hasSuffix e ['}']) = false) (ht : trimSpace e = e)
    (hv : s.resolve P.cfg e = .ok (some v)) :
    evalMustache P s e = .ok v ∧ evalBoundAttribute P s "x".toList e = .ok v := by
  constructor
  · simp [evalMustache, hr, hv]
  · simp [evalBoundAttribute, ht, hni, hno, hr, hv]

end Vuego.Props.C13
