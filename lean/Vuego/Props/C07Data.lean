/-
C07, the data handed along a layout chain (Model/Layout.lean, `dataLoop` / `dataTrace`).

"… with the page's data and front-matter still visible": every link of the chain — however long — reads, for every key other than
`content` and `layout`, its OWN front-matter first and otherwise exactly what the page template holds (page front-matter over Fill data
over config). Nothing a layout's front-matter defines is ever seen by another link; `content` is the output of the link before.
The engine (`render`) is an arbitrary function of the file and the data it reads, the file set arbitrary.
-/
import Vuego.Model.Layout
import Vuego.Props.C07
namespace Vuego.Props.C07
open Go Vuego Vuego.Layout

theorem get_append (a b : Scope) (k : Str) : Scope.get (a ++ b) k = (Scope.get a k).or (Scope.get b k) := by
  induction a with
  | nil => simp [Scope.get]
  | cons x r ih =>
    obtain ⟨k0, v0⟩ := x
    simp only [Scope.get, List.cons_append, List.lookup] at *
    cases h : k == k0 <;> simp [ih]

/-- what a link reads for a key: its own front-matter, else the data handed along, else the config -/
theorem get_visible (W : DWorld) (f : Str) (data : Scope) (k : Str) :
    Scope.get (visible W f data) k = (Scope.get (W.fmOf f) k).or ((Scope.get data k).or (Scope.get W.config k)) := by
  simp [visible, get_append, Option.or_assoc]

theorem get_filter_two (d : Scope) (a b k : Str) :
    Scope.get (d.filter (fun kv => kv.1 != a && kv.1 != b)) k = if k = a ∨ k = b then none else Scope.get d k := by
  induction d with
  | nil => simp [Scope.get]
  | cons x r ih =>
    obtain ⟨k0, v0⟩ := x
    simp only [List.filter]
    by_cases ha : k0 = a
    · subst ha
      simp only [bne_self_eq_false, Bool.false_and]
      rw [ih]
      by_cases hk : k = k0
      · simp [hk]
      · have hb : (k == k0) = false := by simpa using hk
        simp [Scope.get, List.lookup, hb, hk]
    · by_cases hb : k0 = b
      · subst hb
        have : (k0 != a && k0 != k0) = false := by simp
        simp only [this]
        rw [ih]
        by_cases hk : k = k0
        · simp [hk]
        · have hb' : (k == k0) = false := by simpa using hk
          simp [Scope.get, List.lookup, hb', hk]
      · have : (k0 != a && k0 != b) = true := by simp [ha, hb]
        simp only [this]
        by_cases hk : k = k0
        · subst hk
          simp [Scope.get, List.lookup, ha, hb]
        · have hb' : (k == k0) = false := by simpa using hk
          simp only [Scope.get, List.lookup, hb'] at ih ⊢
          exact ih

/-- the data handed along agrees with the page's data on every key but `content` and `layout` -/
def Agree (d pd : Scope) : Prop := ∀ k, k ≠ sContent → k ≠ sLayout → Scope.get d k = Scope.get pd k

theorem get_handOn (d : Scope) (html k : Str) :
    Scope.get (handOn d html) k = if k = sContent then some (.str html) else if k = sLayout then none else Scope.get d k := by
  unfold handOn
  by_cases hc : k = sContent
  · subst hc; simp [Scope.get, List.lookup]
  · have hb : (k == sContent) = false := by simpa using hc
    have := get_filter_two d sLayout sContent k
    simp only [Scope.get] at this
    simp only [Scope.get, List.lookup, hb, this, hc, or_false, ↓reduceIte]

theorem handOn_agree (d pd : Scope) (html : Str) (h : Agree d pd) : Agree (handOn d html) pd := by
  intro k hc hl
  rw [get_handOn]; simp [hc, hl, h k hc hl]

/-- (D1) PAGE DATA VISIBLE IN EVERY LINK, LAYOUT FRONT-MATTER STAYS INNER. For every link the loop renders — at any depth, for any engine
    and file set — and every key other than `content` and `layout`: the link reads its own front-matter, else what the page template
    holds, else the config. The front-matter of the other links of the chain does not occur in the formula. -/
theorem every_link_reads_page_data (W : DWorld) (pd : Scope) :
    ∀ (n : Nat) (file : Str) (first : Bool) (data : Scope), Agree data pd →
      ∀ x ∈ dataTrace W n file first data, ∀ k, k ≠ sContent → k ≠ sLayout →
        Scope.get x.2 k = (Scope.get (W.fmOf x.1) k).or ((Scope.get pd k).or (Scope.get W.config k))
  | 0, _, _, _, _ => by intro x hx; simp [dataTrace] at hx
  | n + 1, file, first, data, ha => by
    intro x hx k hc hl
    simp only [dataTrace, List.mem_cons] at hx
    rcases hx with hx | hx
    · subst hx
      simp only [get_visible, ha k hc hl]
    · cases hr : W.render file (visible W file data) with
      | ok html =>
        simp only [hr] at hx
        have ha' := handOn_agree data pd html ha
        split at hx
        · split at hx
          · exact every_link_reads_page_data W pd n _ _ _ ha' x hx k hc hl
          · simp at hx
        · exact every_link_reads_page_data W pd n _ _ _ ha' x hx k hc hl
      | err c m => simp [hr] at hx
      | panic s => simp [hr] at hx
      | hang s => simp [hr] at hx
      | fuel => simp [hr] at hx

/-- the same for a whole `template.Render`: the page template holds its front-matter over the Fill data over the config -/
theorem render_every_link_reads_page_data (W : DWorld) (page : Str) (fill : Scope) :
    ∀ x ∈ traceEntryD W page fill, ∀ k, k ≠ sContent → k ≠ sLayout →
      Scope.get x.2 k = (Scope.get (W.fmOf x.1) k).or ((Scope.get (W.fmOf page) k).or ((Scope.get fill k).or (Scope.get W.config k))) := by
  intro x hx k hc hl
  unfold traceEntryD at hx
  split at hx
  · have h := every_link_reads_page_data W (visible W page fill) _ page true _ (fun _ _ _ => rfl) x hx k hc hl
    rw [h, get_visible]
    cases Scope.get (W.fmOf x.1) k <;> cases Scope.get (W.fmOf page) k <;> cases Scope.get fill k <;> cases Scope.get W.config k <;> rfl
  · simp only [List.mem_singleton] at hx
    subst hx
    rw [get_visible]
    cases Scope.get (W.fmOf page) k <;> cases Scope.get fill k <;> cases Scope.get W.config k <;> rfl

/-- (D2) CONTENT: the link after a link that rendered `html` reads `content = html` (unless its own front-matter defines `content`) -/
theorem next_link_content (W : DWorld) (n : Nat) (file : Str) (first : Bool) (data : Scope) (html : Str)
    (h : W.render file (visible W file data) = .ok html) (x : Str × Scope)
    (hx : (dataTrace W (n + 1) file first data)[1]? = some x) :
    Scope.get x.2 sContent = (Scope.get (W.fmOf x.1) sContent).or (some (.str html)) := by
  have key : ∀ f', (dataTrace W n f' false (handOn data html))[0]? = some x →
      Scope.get x.2 sContent = (Scope.get (W.fmOf x.1) sContent).or (some (.str html)) := by
    intro f' h0
    cases n with
    | zero => simp [dataTrace] at h0
    | succ m =>
      simp only [dataTrace, List.getElem?_cons_zero, Option.some.injEq] at h0
      subst h0
      simp only [get_visible, get_handOn, ↓reduceIte, Option.or_some]
      cases Scope.get (W.fmOf f') sContent <;> rfl
  simp only [dataTrace, h, List.getElem?_cons_succ] at hx
  split at hx
  · split at hx
    · exact key _ hx
    · simp at hx
  · exact key _ hx

/-! ### the data model refines the control-flow model

After the first link the data handed along is `handOn pd html` for the previous output `html` — it carries no `layout` key — so the rest
of `dataLoop` IS `layoutLoop` of the control-flow model (whose theorems — nesting, termination within the limit, cycles are errors, the
default base — are in C07.lean), with `layoutOf f` = the layout named by `f`'s own front-matter (or the config) and `renderLink f c` =
the engine reading `f`'s view of the page data with `content = c`. -/

def toL (W : DWorld) (pd : Scope) : LWorld Str :=
  { layoutOf := fun f => getStr (W.fmOf f ++ W.config) sLayout,
    fileExists := W.fileExists,
    renderLink := fun f c => W.render f (visible W f (match c with | some html => handOn pd html | none => pd)) }

theorem filter_handOn (d : Scope) (h : Str) :
    (handOn d h).filter (fun kv => kv.1 != sLayout && kv.1 != sContent) = d.filter (fun kv => kv.1 != sLayout && kv.1 != sContent) := by
  unfold handOn
  simp only [List.filter, bne_self_eq_false, Bool.and_false, List.filter_filter, Bool.and_self]

theorem handOn_handOn (d : Scope) (h h' : Str) : handOn (handOn d h) h' = handOn d h' := by
  show (sContent, Val.str h') :: (handOn d h).filter _ = (sContent, Val.str h') :: d.filter _
  rw [filter_handOn]

theorem getStr_layout_handOn (W : DWorld) (f : Str) (d : Scope) (h : Str) :
    getStr (visible W f (handOn d h)) sLayout = getStr (W.fmOf f ++ W.config) sLayout := by
  have hne : sLayout ≠ sContent := by decide
  unfold getStr
  rw [get_visible, get_handOn, get_append]
  simp only [hne, ↓reduceIte, Option.none_or]

theorem resolve_same (W : DWorld) (pd : Scope) (l f : Str) : resolveLayoutPath W.paths l f = resolveLayoutPath (toL W pd) l f := rfl

theorem dataLoop_refines_after_first (W : DWorld) (pd : Scope) :
    ∀ (n : Nat) (file : Str) (html : Str), dataLoop W n file false (handOn pd html) = layoutLoop (toL W pd) n file false (some html)
  | 0, _, _ => rfl
  | n + 1, file, html => by
    simp only [dataLoop, layoutLoop, getStr_layout_handOn, handOn_handOn]
    have hr : (toL W pd).renderLink file (some html) = W.render file (visible W file (handOn pd html)) := rfl
    rw [hr]
    cases W.render file (visible W file (handOn pd html)) with
    | ok html' =>
      simp only []
      have hl : (toL W pd).layoutOf file = getStr (W.fmOf file ++ W.config) sLayout := rfl
      rw [hl]
      split
      · rfl
      · rw [dataLoop_refines_after_first W pd n _ html', resolve_same W pd]
    | err c m => rfl
    | panic s => rfl
    | hang s => rfl
    | fuel => rfl

/-! ### non-vacuity: a three-link chain whose inner layout defines a key the page also defines -/

def demoD : DWorld :=
  { config := [("k3".toList, .str "T".toList)],
    fmOf := fun f =>
      if f == "p".toList then [("layout".toList, .str "a".toList), ("k1".toList, .str "P".toList)]
      else if f == "layouts/a.vuego".toList then [("layout".toList, .str "b".toList), ("k1".toList, .str "A".toList), ("k2".toList, .str "A2".toList)]
      else [],
    fileExists := fun f => f == "layouts/a.vuego".toList || f == "layouts/b.vuego".toList,
    render := fun f vis => .ok ('[' :: f ++ '|' :: getStr vis "k1".toList ++ '|' :: getStr vis "k2".toList ++ '|' :: getStr vis "k3".toList ++ '|' :: getStr vis sContent ++ [']']) }

example : (match renderEntryD demoD "p".toList [("k2".toList, .str "F".toList)] with
    | .ok out => out == "[layouts/b.vuego|P|F|T|[layouts/a.vuego|A|A2|T|[p|P|F|T|]]]".toList | _ => false) = true := by decide

example : (traceEntryD demoD "p".toList [("k2".toList, .str "F".toList)]).map (·.1) = ["p".toList, "layouts/a.vuego".toList, "layouts/b.vuego".toList] := by decide

end Vuego.Props.C07
