/-
C05 — components receive exactly their props; front-matter wins; nothing leaks back.
Model: evalTemplate (include branch), evalInclude, evalAttributes (the props map), resolveComponentTags.
-/
import Vuego.Lemmas.EvalInv
namespace Vuego.Props.C05
open Go Vuego

/-- (1) NOTHING LEAKS BACK: for every component file set, every prop map, every fuel — whatever the component does (nested includes,
    loops, slot use, templates setting variables) — after the include the variable stack is EXACTLY the includer's stack, and the
    v-once `seen` set only grew. -/
theorem include_no_leak (W : World) (f : Nat) (ctx : Ctx) (st st' : St) (attrs : List Attr) (kids : List Node) (vars : Scope) (out : List Node)
    (hs : st.stack.scopes ≠ []) (h : evalInclude W f ctx st attrs kids vars = .ok (out, st')) :
    st'.stack = st.stack ∧ ∀ x ∈ st.seen, x ∈ st'.seen :=
  (frameAt W f).incl ctx st attrs kids vars out st' hs h

/-- the scope the component body runs in: the props pushed as one scope, the component's front-matter set over them -/
def componentStack (s : Stack) (vars fm : Scope) : Stack := setMany (s.push vars) fm

/-- (2) inside the component a name resolves to the front-matter value if the front-matter has it, else to the prop, else to the
    includer's variable (front-matter wins, props are visible, the includer's variables are still visible) -/
theorem component_lookup_order (cfg : ReflectCfg) (s : Stack) (vars fm : Scope) (k : Str) (hfm : Scope.WF fm) :
    Stack.lookup cfg (componentStack s vars fm) k =
      match Scope.get fm k with
      | some v => .ok (some v)
      | none => (match Scope.get vars k with | some v => .ok (some v) | none => Stack.lookup cfg s k) := by
  have hscopes : (componentStack s vars fm).scopes = s.scopes ++ [fm.foldl (fun a (kv : Str × Val) => Scope.set a kv.1 kv.2) vars] ∧
      (componentStack s vars fm).root = s.root := by
    unfold componentStack setMany
    generalize hv : vars = v0
    clear hv
    induction fm generalizing v0 with
    | nil => exact ⟨rfl, rfl⟩
    | cons kv r ih =>
      simp only [List.foldl_cons]
      have hr : Scope.WF r := by simp only [Scope.WF, List.map_cons, List.nodup_cons] at hfm; exact hfm.2
      have e : (s.push v0).set kv.1 kv.2 = s.push (Scope.set v0 kv.1 kv.2) := by
        simp [Stack.push, Stack.set, Stack.setTop_concat]
      rw [e]
      exact ih hr _
  simp only [Stack.lookup, hscopes.1, hscopes.2, Stack.lookupScopes_reverse_concat]
  rw [Scope.get_foldl_set _ _ _ hfm]
  cases Scope.get fm k with
  | some v => rfl
  | none => cases Scope.get vars k <;> rfl

/-- (3) bound props keep their type: a bound attribute's value enters the props map as the evaluated value, not as its string form -/
theorem bound_prop_keeps_type (P : Params) (s : Stack) (name expr : Str) (v : Val)
    (hb : isBoundKey (':' :: name) = some name) (hne : (':' :: name) ≠ sVHtml ∧ (':' :: name) ≠ sVText)
    (he : evalBoundAttribute P s name (trimSpace expr) = .ok v) (ht : isTruthy v = true) :
    evalAttributes P s [(':' :: name, expr)] = .ok ([(name, v.sprint)], [(name, v)]) := by
  have h1 : ((':' :: name) == sVHtml) = false := by simpa using hne.1
  have h2 : ((':' :: name) == sVText) = false := by simpa using hne.2
  have hbn : boundNameOf (':' :: name) = name := by simp [boundNameOf, hb]
  have hneq : (name != ':' :: name) = true := by
    simp only [bne_iff_ne, ne_eq]
    intro h; have := congrArg List.length h; simp at this
  have hor : ¬ (':' :: name = sVHtml ∨ ':' :: name = sVText) := fun h => h.elim hne.1 hne.2
  simp [evalAttributes, hbn, he, wrapErr, ht, Scope.set, Scope.get, hasAttr, hor, List.lookup]

/-- (3b) a STATIC attribute enters the props as its (trimmed) text, under its own name … -/
theorem static_prop_is_its_text (P : Params) (s : Stack) (key v : Str)
    (hk : boundNameOf key = key) (hne : key ≠ sVHtml ∧ key ≠ sVText)
    (hi : Generated.containsInterpolation (trimSpace v) = false) :
    evalAttributes P s [(key, v)] = .ok ([(key, trimSpace v)], [(key, .str (trimSpace v))]) := by
  have hor : ¬ (key = sVHtml ∨ key = sVText) := fun h => h.elim hne.1 hne.2
  simp [evalAttributes, hk, hi, hor, Scope.set, Scope.get, List.lookup]

/-- … and an INTERPOLATED one as the interpolated text (a string, whatever the values inside the mustaches were) -/
theorem interpolated_prop_is_interpolated_text (P : Params) (s : Stack) (key v t : Str)
    (hk : boundNameOf key = key) (hne : key ≠ sVHtml ∧ key ≠ sVText)
    (hi : Generated.containsInterpolation (trimSpace v) = true) (ht : interpolate P s (trimSpace v) = .ok t) :
    evalAttributes P s [(key, v)] = .ok ([(key, t)], [(key, .str t)]) := by
  have hor : ¬ (key = sVHtml ∨ key = sVText) := fun h => h.elim hne.1 hne.2
  simp [evalAttributes, hk, hi, ht, hor, Scope.set, Scope.get, List.lookup]

/-- (4) `:required`: a component whose wrapping `<template>` lists a name missing from the merged environment fails the render with an error
    that names it (for every includer state) … -/
theorem required_missing_is_error (W : World) (f : Nat) (ctx : Ctx) (st : St) (attrs kids : _) (vars : Scope) (name : Str) (fm : Scope) (dom : List Node)
    (t : Str) (a : List Attr) (k : List Node) (rest : List Node) (missing : Str)
    (hlim : ¬ ctx.chain.length > includeLimit) (hn : getAttr attrs (S "include") = name) (hf : W.files.lookup name = some (fm, dom))
    (hd : resolveTagsList W.comps (assignSeenAttrs name dom) = .elem t a k :: rest) (ht : t = S "template") (hi : hasAttr a (S "include") = false)
    (hm : checkRequired a ((setMany (st.stack.push vars) fm).envMap W.P.cfg) = some missing) :
    evalInclude W (f + 1) ctx st attrs kids vars =
      .err "required" (S "error in " ++ name ++ S " (included from " ++ formatChain ctx ++ S "): required attribute '" ++ missing ++ S "' not provided") := by
  subst ht
  simp [evalInclude, hlim, hn, hf, hd, hi, hm, wrapperRequired]

/-- … and `checkRequired` reports exactly the first listed name that the environment lacks, and nothing when all are there -/
theorem checkRequired_spec (attrs : List Attr) (env : Scope) :
    (checkRequired attrs env = none ↔
      ∀ a ∈ attrs, (a.1 = S ":require" ∨ a.1 = S ":required") → ∀ fld ∈ (splitChar ',' a.2).map trimSpace, fld ≠ [] → (Scope.get env fld).isSome) := by
  simp only [checkRequired, List.find?_eq_none, List.mem_flatMap, List.mem_filter, Bool.or_eq_true, beq_iff_eq, bne_iff_ne, ne_eq,
    Bool.not_eq_true, Option.isNone_eq_false_iff]
  constructor
  · intro h a ha hk fld hf hne
    have := h fld ⟨a, ⟨ha, hk⟩, hf, hne⟩
    simpa using this
  · rintro h fld ⟨a, ⟨ha, hk⟩, hf, hne⟩
    have := h a ha hk fld hf hne
    simpa using this

/-- (4b) "and never otherwise": `:required` asks whether a name is BOUND, never what it is bound to - two environments that bind the same
    names give the same verdict, whatever the values (null, empty string, zero, false included) -/
theorem required_ignores_values (attrs : List Attr) (env env' : Scope)
    (h : ∀ k, (Scope.get env k).isSome = (Scope.get env' k).isSome) : checkRequired attrs env = checkRequired attrs env' := by
  have hp : (fun f => (Scope.get env f).isNone) = (fun f => (Scope.get env' f).isNone) := by
    funext f
    have := h f
    cases h1 : Scope.get env f <;> cases h2 : Scope.get env' f <;> simp_all
  simp only [checkRequired, hp]

/-- … in particular a name bound to null is provided exactly like the same name bound to any other value -/
theorem required_name_bound_to_null_is_provided (attrs : List Attr) (env : Scope) (k : Str) (v : Val) :
    checkRequired attrs (Scope.set env k .nil) = checkRequired attrs (Scope.set env k v) := by
  apply required_ignores_values
  intro k'
  simp only [Scope.get_set]
  split <;> rfl

example : checkRequired [(S ":required", S "title, sub")] [(S "title", .str (S "T")), (S "sub", .nil)] = none := by decide
example : checkRequired [(S ":required", S "title, sub")] [(S "title", .str (S "T"))] = some (S "sub") := by decide

/-- (5) a registered shorthand tag IS the equivalent `<template include>`: same attributes plus `include=file`, same children -/
theorem shorthand_is_include (comps : List (Str × Str)) (tag file : Str) (attrs : List Attr) (kids : List Node)
    (h : comps.lookup tag = some file) :
    resolveTagsNode comps (.elem tag attrs kids) = .elem (S "template") (attrs ++ [(S "include", file)]) kids := by
  simp [resolveTagsNode, h]

/-- (6) an include that is a member of a `v-if` chain is still an include: once the chain has selected it, a `<template include>`
    member (a component tag that carries the chain directive is rewritten to one, by (5)) is evaluated exactly as `evalTemplate`
    evaluates an include reached by the main loop - the component is rendered with the tag's attributes as props -/
theorem conditional_include_is_include (W : World) (f : Nat) (ctx : Ctx) (st : St) (attrs : List Attr) (kids : List Node)
    (hfor : getAttr attrs (S "v-for") = []) (hinc : hasAttr attrs (S "include") = true) :
    evalAsElement W (f + 1) ctx st (S "template") attrs kids = evalTemplate W f ctx st attrs kids := by
  have hne : (S "template" == S "slot") = false := by decide
  simp [evalAsElement, hfor, hinc, hne]

/-- ... and what it renders is the included component: the include path of `evalTemplate` -/
theorem conditional_include_renders_component (W : World) (f : Nat) (ctx : Ctx) (st : St) (attrs : List Attr) (kids : List Node)
    (hfor : getAttr attrs (S "v-for") = []) (hinc : hasAttr attrs (S "include") = true) :
    evalAsElement W (f + 2) ctx st (S "template") attrs kids =
      bindE (evalAttributes W.P st.stack attrs) (fun av => evalInclude W f ctx st av.1 kids (decodeVars W.jsonDecode av.2)) := by
  rw [conditional_include_is_include W (f + 1) ctx st attrs kids hfor hinc]
  simp [evalTemplate, hinc]

/-! non-vacuity -/
example : Stack.lookup goodCfg (componentStack { scopes := [[(S "outer", .str (S "O")), (S "a", .str (S "A-OUTER"))]], root := .nil }
    [(S "a", .str (S "PROP")), (S "b", .int .int 2)] [(S "b", .str (S "FM"))]) (S "b") = .ok (some (.str (S "FM"))) := by rfl

end Vuego.Props.C05
