/-
C10 / C04 — a loop over a MAP. A Go map has no order of its own; `Stack.ForEach` visits its items in the order of their keys (fix: sorted
keys), so the bytes a `v-for` over a map produces are a function of the map's CONTENT: every item exactly once, in key order, however the
map was built or enumerated.
-/
import Vuego.Model.Eval
namespace Vuego.Props.C10MapOrder
open Go Vuego

theorem strLe_refl : ∀ a : Str, strLe a a = true
  | [] => rfl
  | c :: r => by simp [strLe, strLe_refl r]

theorem strLe_total : ∀ a b : Str, (strLe a b || strLe b a) = true
  | [], _ => by simp [strLe]
  | _ :: _, [] => by simp [strLe]
  | a :: r, b :: s => by
    unfold strLe
    by_cases h1 : a.toNat < b.toNat
    · simp [h1]
    · by_cases h2 : b.toNat < a.toNat
      · simp [h2]
      · simp only [h1, h2, ↓reduceIte]; exact strLe_total r s

theorem strLe_trans : ∀ a b c : Str, strLe a b = true → strLe b c = true → strLe a c = true
  | [], _, _, _, _ => by simp [strLe]
  | _ :: _, [], _, h, _ => by simp [strLe] at h
  | _ :: _, _ :: _, [], _, h => by simp [strLe] at h
  | a :: r, b :: s, c :: t, h1, h2 => by
    unfold strLe at h1 h2 ⊢
    by_cases hab : a.toNat < b.toNat
    · by_cases hbc : b.toNat < c.toNat
      · have : a.toNat < c.toNat := by omega
        simp [this]
      · by_cases hcb : c.toNat < b.toNat
        · simp [hbc, hcb] at h2
        · have : a.toNat < c.toNat := by omega
          simp [this]
    · by_cases hba : b.toNat < a.toNat
      · simp [hab, hba] at h1
      · simp only [hab, hba, ↓reduceIte] at h1
        have hab' : a.toNat = b.toNat := by omega
        by_cases hbc : b.toNat < c.toNat
        · have : a.toNat < c.toNat := by omega
          simp [this]
        · by_cases hcb : c.toNat < b.toNat
          · simp [hbc, hcb] at h2
          · simp only [hbc, hcb, ↓reduceIte] at h2
            have h3 : ¬ a.toNat < c.toNat := by omega
            have h4 : ¬ c.toNat < a.toNat := by omega
            simp only [h3, h4, ↓reduceIte]
            exact strLe_trans r s t h1 h2

theorem strLe_antisymm : ∀ a b : Str, strLe a b = true → strLe b a = true → a = b
  | [], [], _, _ => rfl
  | [], _ :: _, _, h => by simp [strLe] at h
  | _ :: _, [], h, _ => by simp [strLe] at h
  | a :: r, b :: s, h1, h2 => by
    unfold strLe at h1 h2
    by_cases hab : a.toNat < b.toNat
    · have hba : ¬ b.toNat < a.toNat := by omega
      simp [hab, hba] at h2
    · by_cases hba : b.toNat < a.toNat
      · simp [hab, hba] at h1
      · simp only [hab, hba, ↓reduceIte] at h1 h2
        have hc : a = b := Char.ext (UInt32.toNat_inj.mp (by
          have : a.toNat = b.toNat := by omega
          exact this))
        rw [hc, strLe_antisymm r s h1 h2]

/-- every item of the map is visited exactly once -/
theorem map_loop_visits_every_item_once (mk : MapKind) (kvs : List (Str × Val)) : (Val.iterOrder mk kvs).Perm kvs := by
  unfold Val.iterOrder
  split
  · exact List.Perm.refl _
  · exact List.mergeSort_perm _ _

/-- ... in the order of the keys -/
theorem map_loop_in_key_order (mk : MapKind) (kvs : List (Str × Val)) (h : mk ≠ .nonStrKey) :
    (Val.iterOrder mk kvs).Pairwise (fun a b => strLe a.1 b.1 = true) := by
  have hne : (mk == MapKind.nonStrKey) = false := by cases mk <;> simp_all
  unfold Val.iterOrder
  simp only [hne, Bool.false_eq_true, ↓reduceIte]
  exact List.pairwise_mergeSort (le := fun a b => strLe a.1 b.1)
    (fun a b c h1 h2 => strLe_trans a.1 b.1 c.1 h1 h2) (fun a b => strLe_total a.1 b.1) kvs

theorem keys_distinct : ∀ {l : List (Str × Val)}, l.Pairwise (fun a b => a.1 ≠ b.1) → ∀ {a b : Str × Val}, a ∈ l → b ∈ l → a.1 = b.1 → a = b
  | [], _, _, _, ha, _, _ => by cases ha
  | x :: r, h, a, b, ha, hb, hk => by
    rw [List.pairwise_cons] at h
    rcases List.mem_cons.mp ha with rfl | ha'
    · rcases List.mem_cons.mp hb with rfl | hb'
      · rfl
      · exact absurd hk (h.1 b hb')
    · rcases List.mem_cons.mp hb with rfl | hb'
      · exact absurd hk.symm (h.1 a ha')
      · exact keys_distinct h.2 ha' hb' hk

/-- THE ORDER IS A FUNCTION OF THE MAP'S CONTENT: two enumerations of the same map (the same entries, keys pairwise different, listed in any
    two orders - as two runs of Go's map iteration list them) are visited in one and the same order -/
theorem map_loop_order_independent_of_enumeration (mk : MapKind) (kvs kvs' : List (Str × Val)) (h : mk ≠ .nonStrKey)
    (hperm : kvs.Perm kvs') (hkeys : kvs.Pairwise (fun a b => a.1 ≠ b.1)) :
    Val.iterOrder mk kvs = Val.iterOrder mk kvs' := by
  have p1 := map_loop_visits_every_item_once mk kvs
  have p2 := map_loop_visits_every_item_once mk kvs'
  have hp : (Val.iterOrder mk kvs).Perm (Val.iterOrder mk kvs') := p1.trans (hperm.trans p2.symm)
  refine List.Perm.eq_of_pairwise (le := fun a b => strLe a.1 b.1 = true) ?_ (map_loop_in_key_order mk kvs h) (map_loop_in_key_order mk kvs' h) hp
  intro a b ha hb hab hba
  have hk : a.1 = b.1 := strLe_antisymm a.1 b.1 hab hba
  have ha' : a ∈ kvs := p1.mem_iff.mp ha
  have hb' : b ∈ kvs := hperm.mem_iff.mpr (p2.mem_iff.mp hb)
  exact keys_distinct hkeys ha' hb' hk

/-- a map that is already listed in key order is visited as listed -/
theorem sorted_map_visited_as_listed (mk : MapKind) (kvs : List (Str × Val)) (h : kvs.Pairwise (fun a b => strLe a.1 b.1 = true)) :
    Val.iterOrder mk kvs = kvs := by
  unfold Val.iterOrder
  split
  · rfl
  · exact List.mergeSort_of_pairwise (le := fun (a b : Str × Val) => strLe a.1 b.1) h

/-! non-vacuity: a struct's fields in declaration order (x, Y) are visited Y first -/
example : Val.iterOrder .anyMap [(S "x", .int .int 1), (S "Y", .str (S "in"))] = [(S "Y", .str (S "in")), (S "x", .int .int 1)] := by
  have h : Val.iterOrder .anyMap [(S "Y", .str (S "in")), (S "x", .int .int 1)] = [(S "Y", .str (S "in")), (S "x", .int .int 1)] :=
    sorted_map_visited_as_listed _ _ (by simp [strLe, S])
  rw [← h]
  exact map_loop_order_independent_of_enumeration _ _ _ (by decide) (List.Perm.swap _ _ _) (by simp [S])

end Vuego.Props.C10MapOrder
