/-
C03 (first half) — conditional chains render exactly the first truthy branch.
`chainSelect` is the evaluator's own chain logic (evalElseIfChain's scans with lastChainNodeIdx and the skip counts),
separated from the evaluation of the chosen member. The theorems are over ALL sibling lists and ALL condition evaluators.
-/
import Vuego.Model.Eval
namespace Vuego.Props.C03
open Go Vuego

/-- a sibling that the scan passes over without ending the chain: a non-element, or an else-member whose test fails
    (a `v-else-if` with a non-empty condition evaluating to false, or an empty `v-else-if` without `v-else`) -/
def passes (cond : Str → Res Bool) : Node → Prop
  | .elem _ attrs _ =>
    (hasAttr attrs (S "v-else-if") || hasAttr attrs (S "v-else")) = true ∧
      ((getAttr attrs (S "v-else-if") ≠ [] ∧ cond (getAttr attrs (S "v-else-if")) = .ok false) ∨
       (getAttr attrs (S "v-else-if") = [] ∧ hasAttr attrs (S "v-else") = false))
  | _ => True

/-- an else-member whose test succeeds: `v-else-if` with a true condition, or `v-else` (with no non-empty `v-else-if`) -/
def matches_ (cond : Str → Res Bool) : Node → Prop
  | .elem _ attrs _ =>
    (hasAttr attrs (S "v-else-if") || hasAttr attrs (S "v-else")) = true ∧
      ((getAttr attrs (S "v-else-if") ≠ [] ∧ cond (getAttr attrs (S "v-else-if")) = .ok true) ∨
       (getAttr attrs (S "v-else-if") = [] ∧ hasAttr attrs (S "v-else") = true))
  | _ => False

/-- an element that is not an else-member ends the chain -/
def stops : Node → Prop
  | .elem _ attrs _ => (hasAttr attrs (S "v-else-if") || hasAttr attrs (S "v-else")) = false
  | _ => False

/-- (1) the v-if is true: it renders, and exactly the chain that follows it is consumed (`lastChainIdx`) -/
theorem chain_if_true (cond : Str → Res Bool) (vIf : Str) (rest : List Node) (hne : vIf ≠ []) (h : cond vIf = .ok true) :
    chainSelect cond vIf rest = .ok (.member 0, lastChainIdx rest 1 0) := by
  have : (vIf == []) = false := by simpa using hne
  simp [chainSelect, this, h]

/-- scanning over siblings that all pass leaves the decision to what follows; `last` advances to the last member passed -/
theorem chainScan_pass (cond : Str → Res Bool) (pre : List Node) (hp : ∀ n ∈ pre, passes cond n) :
    ∀ (tail : List Node) (idx last : Nat), ∃ last', chainScan cond (pre ++ tail) idx last = chainScan cond tail (idx + pre.length) last' ∧
      (last' = last ∨ (idx ≤ last' ∧ last' < idx + pre.length)) := by
  induction pre with
  | nil => intro tail idx last; exact ⟨last, by simp, Or.inl rfl⟩
  | cons n r ih =>
    intro tail idx last
    have hn := hp n (by simp)
    have hr : ∀ x ∈ r, passes cond x := fun x hx => hp x (by simp [hx])
    cases n with
    | elem t attrs k =>
      simp only [passes] at hn
      obtain ⟨hm, hc⟩ := hn
      obtain ⟨last', he, hl⟩ := ih hr tail (idx + 1) idx
      refine ⟨last', ?_, ?_⟩
      · simp only [List.cons_append, chainScan, hm, Bool.not_true, Bool.false_eq_true, ↓reduceIte]
        rcases hc with ⟨hne, hcf⟩ | ⟨he', hv⟩
        · have : (getAttr attrs (S "v-else-if") != []) = true := by simpa using hne
          simp only [this, ↓reduceIte, hcf]
          rw [he]; congr 1; simp only [List.length_cons]; omega
        · have : (getAttr attrs (S "v-else-if") != []) = false := by simpa using he'
          simp only [this, Bool.false_eq_true, ↓reduceIte, hv]
          rw [he]; congr 1; simp only [List.length_cons]; omega
      · simp only [List.length_cons]
        rcases hl with rfl | ⟨h1, h2⟩
        · exact Or.inr ⟨by omega, by omega⟩
        · exact Or.inr ⟨by omega, by omega⟩
    | text d =>
      obtain ⟨last', he, hl⟩ := ih hr tail (idx + 1) last
      refine ⟨last', ?_, ?_⟩
      · simp only [List.cons_append, chainScan]; rw [he]; congr 1; simp only [List.length_cons]; omega
      · simp only [List.length_cons]; rcases hl with rfl | ⟨h1, h2⟩
        · exact Or.inl rfl
        · exact Or.inr ⟨by omega, by omega⟩
    | comment d =>
      obtain ⟨last', he, hl⟩ := ih hr tail (idx + 1) last
      refine ⟨last', ?_, ?_⟩
      · simp only [List.cons_append, chainScan]; rw [he]; congr 1; simp only [List.length_cons]; omega
      · simp only [List.length_cons]; rcases hl with rfl | ⟨h1, h2⟩
        · exact Or.inl rfl
        · exact Or.inr ⟨by omega, by omega⟩
    | doctype d =>
      obtain ⟨last', he, hl⟩ := ih hr tail (idx + 1) last
      refine ⟨last', ?_, ?_⟩
      · simp only [List.cons_append, chainScan]; rw [he]; congr 1; simp only [List.length_cons]; omega
      · simp only [List.length_cons]; rcases hl with rfl | ⟨h1, h2⟩
        · exact Or.inl rfl
        · exact Or.inr ⟨by omega, by omega⟩

/-- (2) the v-if is false and the siblings are `pre ++ m :: post` where everything in `pre` passes and `m` matches:
    exactly `m` renders — the FIRST truthy branch — and the siblings up to and including `m` are consumed, nothing beyond it. -/
theorem chain_first_truthy (cond : Str → Res Bool) (vIf : Str) (pre post : List Node) (m : Node)
    (hne : vIf ≠ []) (hf : cond vIf = .ok false) (hp : ∀ n ∈ pre, passes cond n) (hm : matches_ cond m) :
    chainSelect cond vIf (pre ++ m :: post) = .ok (.member (pre.length + 1), pre.length + 1) := by
  have hv : (vIf == []) = false := by simpa using hne
  simp only [chainSelect, hv, Bool.false_eq_true, ↓reduceIte, hf]
  obtain ⟨last', he, _⟩ := chainScan_pass cond pre hp (m :: post) 1 0
  rw [he]
  cases m with
  | elem t attrs k =>
    simp only [matches_] at hm
    obtain ⟨hmem, hc⟩ := hm
    simp only [chainScan, hmem, Bool.not_true, Bool.false_eq_true, ↓reduceIte]
    rcases hc with ⟨hne', hct⟩ | ⟨he', hv'⟩
    · have : (getAttr attrs (S "v-else-if") != []) = true := by simpa using hne'
      simp only [this, ↓reduceIte, hct, Nat.add_comm]
    · have : (getAttr attrs (S "v-else-if") != []) = false := by simpa using he'
      simp only [this, Bool.false_eq_true, ↓reduceIte, hv', Nat.add_comm]
  | text d => exact absurd hm (by simp [matches_])
  | comment d => exact absurd hm (by simp [matches_])
  | doctype d => exact absurd hm (by simp [matches_])

/-- (3) no condition of the chain holds and there is no v-else: nothing renders, and the consumed siblings all lie inside `pre`
    (the chain): the element that ends the chain, and everything after it, is left to the main loop. -/
theorem chain_none (cond : Str → Res Bool) (vIf : Str) (pre tail : List Node)
    (hne : vIf ≠ []) (hf : cond vIf = .ok false) (hp : ∀ n ∈ pre, passes cond n)
    (ht : tail = [] ∨ ∃ n r, tail = n :: r ∧ stops n) :
    ∃ skip, chainSelect cond vIf (pre ++ tail) = .ok (.none, skip) ∧ skip ≤ pre.length := by
  have hv : (vIf == []) = false := by simpa using hne
  simp only [chainSelect, hv, Bool.false_eq_true, ↓reduceIte, hf]
  obtain ⟨last', he, hl⟩ := chainScan_pass cond pre hp tail 1 0
  rw [he]
  have hle : last' ≤ pre.length := by rcases hl with rfl | ⟨_, h2⟩ <;> omega
  rcases ht with rfl | ⟨n, r, rfl, hs⟩
  · exact ⟨last', by simp [chainScan], hle⟩
  · cases n with
    | elem t attrs k =>
      simp only [stops] at hs
      exact ⟨last', by simp [chainScan, hs], hle⟩
    | text d => exact absurd hs (by simp [stops])
    | comment d => exact absurd hs (by simp [stops])
    | doctype d => exact absurd hs (by simp [stops])

/-- (4) an else-member met outside a chain (an orphan, or a member after the branch that rendered) is dropped by the main loop
    and the rest of the siblings is evaluated as if it were not there -/
theorem orphan_else_dropped (W : World) (f : Nat) (ctx : Ctx) (st : St) (tag : Str) (attrs : List Attr) (kids rest : List Node)
    (h1 : hasAttr attrs (S "v-once") = false) (h2 : hasAttr attrs (S "v-pre") = false)
    (h5 : hasAttr attrs (S "v-if") = false)
    (h6 : (hasAttr attrs (S "v-else-if") || hasAttr attrs (S "v-else")) = true) :
    evalList W (f + 1) ctx st (.elem tag attrs kids :: rest) = evalList W f ctx st rest := by
  simp [evalList, onceHereOf, h1, h2, h5, h6]

/-- … also when the stray member carries `v-once`: it is dropped WITHOUT being marked as rendered, the state is untouched (repair of the
    recorded finding: the v-once test used to come first and used the member's v-once up) -/
theorem orphan_else_with_once_dropped_unmarked (W : World) (f : Nat) (ctx : Ctx) (st : St) (tag : Str) (attrs : List Attr) (kids rest : List Node)
    (h2 : hasAttr attrs (S "v-pre") = false) (h5 : hasAttr attrs (S "v-if") = false)
    (h6 : (hasAttr attrs (S "v-else-if") || hasAttr attrs (S "v-else")) = true) :
    evalList W (f + 1) ctx st (.elem tag attrs kids :: rest) = evalList W f ctx st rest := by
  have hh : onceHereOf attrs = false := by
    simp only [onceHereOf, h5]
    cases h7 : hasAttr attrs (S "v-else-if") <;> cases h8 : hasAttr attrs (S "v-else") <;> simp_all
  simp [evalList, hh, h2, h5, h6]

/-- THE HEAD OF A CHAIN THAT IS NOT RENDERED KEEPS ITS `v-once` (repair of the recorded finding): when the chain selects no member, the
    siblings after the chain are evaluated in the state the head was reached in - nothing is marked, whatever the head carries -/
theorem unselected_head_leaves_state (W : World) (f : Nat) (ctx : Ctx) (st : St) (tag : Str) (attrs : List Attr) (kids rest : List Node) (n : Nat)
    (hpre : hasAttr attrs (S "v-pre") = false) (hfor : hasAttr attrs (S "v-for") = false) (hif : hasAttr attrs (S "v-if") = true)
    (hsel : chainSelect (evalCondition W.P st.stack) (getAttr attrs (S "v-if")) rest = .ok (.none, n)) :
    evalList W (f + 1) ctx st (.elem tag attrs kids :: rest) = evalList W f ctx st (rest.drop n) := by
  have hh : onceHereOf attrs = false := by simp [onceHereOf, hpre, hif]
  simp [evalList, hh, hpre, hfor, hif, hsel, bindE]

/-- … and a head that IS selected but was already rendered in this render renders nothing, the rest of the chain is still consumed -/
theorem selected_head_already_rendered (W : World) (f : Nat) (ctx : Ctx) (st : St) (tag : Str) (attrs : List Attr) (kids rest : List Node) (n : Nat)
    (hpre : hasAttr attrs (S "v-pre") = false) (hfor : hasAttr attrs (S "v-for") = false) (hif : hasAttr attrs (S "v-if") = true)
    (honce : hasAttr attrs (S "v-once") = true) (hseen : getAttr attrs (S "v-once-id") ∈ st.seen)
    (hsel : chainSelect (evalCondition W.P st.stack) (getAttr attrs (S "v-if")) rest = .ok (.member 0, n)) :
    evalList W (f + 1) ctx st (.elem tag attrs kids :: rest) = evalList W f ctx st (rest.drop n) := by
  have hh : onceHereOf attrs = false := by simp [onceHereOf, hpre, hif]
  simp [evalList, hh, hpre, hfor, hif, hsel, bindE, onceGate, honce, hseen]

/-- (4b) … in particular when the member also carries `v-for` (fix: looped chain members): the loop is not run, so it can neither render its
    instances next to the branch that was chosen nor, by producing nothing, hand a following `v-else` to the for-else rule -/
theorem looped_orphan_dropped (W : World) (f : Nat) (ctx : Ctx) (st : St) (tag : Str) (attrs : List Attr) (kids rest : List Node)
    (h1 : hasAttr attrs (S "v-once") = false) (h2 : hasAttr attrs (S "v-pre") = false)
    (h5 : hasAttr attrs (S "v-if") = false) (_h3 : hasAttr attrs (S "v-for") = true)
    (h6 : (hasAttr attrs (S "v-else-if") || hasAttr attrs (S "v-else")) = true) :
    evalList W (f + 1) ctx st (.elem tag attrs kids :: rest) = evalList W f ctx st rest :=
  orphan_else_dropped W f ctx st tag attrs kids rest h1 h2 h5 h6

/-- A SELECTED MEMBER WHOSE OWN LOOP IS EMPTY RENDERS NOTHING - and stays the selected member: the chain walker hands the member to
    `evaluateNodeAsElement`, whose answer is the loop's (empty) output; the members after it were already skipped by `chainSelect`, so no
    later `v-else-if` / `v-else` renders in its place. (Empty list, empty map, or a collection that does not resolve.) -/
theorem looped_member_with_empty_loop_renders_nothing (W : World) (f : Nat) (ctx : Ctx) (st : St) (tag : Str) (attrs : List Attr) (kids : List Node)
    (e coll : Str) (vars : List Str) (c : Option Val)
    (hfor : getAttr attrs (S "v-for") = e) (hne : e ≠ []) (hp : parseFor e = .ok (vars, coll))
    (hr : st.stack.resolve W.P.cfg coll = .ok c)
    (hc : c = none ∨ (∃ a, c = some (.list a [])) ∨ (∃ mk, c = some (.map mk []))) :
    evalAsElement W (f + 3) ctx st tag attrs kids = .ok ([], st) := by
  have hne2 : (e != []) = true := by simpa using hne
  rcases hc with rfl | ⟨a, rfl⟩ | ⟨mk, rfl⟩ <;>
    simp [evalAsElement, hfor, hne2, evalFor, hp, hr, bindE, evalForItems, Val.iterOrder]

theorem hasAttr_removeAttr_self (attrs : List Attr) (k : Str) : hasAttr (removeAttr attrs k) k = false := by
  simp [hasAttr, removeAttr, List.any_filter]

theorem hasAttr_removeAttr_of_false (attrs : List Attr) (k k' : Str) (h : hasAttr attrs k = false) : hasAttr (removeAttr attrs k') k = false := by
  simp only [hasAttr, removeAttr, List.any_eq_false, List.mem_filter] at *
  intro a ha
  exact h a ha.1

/-- (4c) the instances of a looped member that WAS selected carry no chain directive any more, so the main loop does not take them for orphans -/
theorem loop_instance_has_no_chain_directive (attrs : List Attr) :
    hasAttr (loopInstanceAttrs attrs) (S "v-else-if") = false ∧ hasAttr (loopInstanceAttrs attrs) (S "v-else") = false := by
  unfold loopInstanceAttrs
  exact ⟨hasAttr_removeAttr_of_false _ _ _ (hasAttr_removeAttr_self _ _), hasAttr_removeAttr_self _ _⟩

/-- (5) truthiness is one function at every consumer. `:class` objects: a key is included exactly when its value is truthy … -/
theorem class_object_iff_truthy (k : Str) (v : Val) :
    buildClassString [(k, some v)] = if isTruthy v then trimSpace k else [] := by
  by_cases h : isTruthy v = true <;> simp [buildClassString, h, joinWith]

/-- … conditions (`v-if`, `v-else-if`, `v-show` all go through `evalCondition`) are the truthiness of the expression's value … -/
theorem condition_is_truthiness (P : Params) (s : Stack) (e : Str) (v : Val)
    (hn : isTemplateFuncCall (ExprNorm.normalize (trimSpace e)) = false)
    (he : P.exprEval (ExprNorm.normalize (trimSpace e)) (s.envMap P.cfg) = .ok v) :
    evalCondition P s e = .ok (isTruthy v) := by
  simp [evalCondition, hn, he]

/-! non-vacuity: a concrete chain with a text separator, two failing members and a matching v-else -/
section
def cnd : Str → Res Bool := fun s => .ok (s == S "yes")
def mElseIf (c : String) : Node := .elem (S "p") [(S "v-else-if", S c)] []
def mElse : Node := .elem (S "p") [(S "v-else", [])] []
example : chainSelect cnd (S "no") [.text (S " "), mElseIf "no", mElseIf "yes", mElse, .elem (S "b") [] []] = .ok (.member 3, 3) := by rfl
example : passes cnd (mElseIf "no") ∧ matches_ cnd (mElseIf "yes") ∧ matches_ cnd mElse ∧ stops (.elem (S "b") [] []) := by
  refine ⟨?_, ?_, ?_, ?_⟩ <;> simp [passes, matches_, stops, mElseIf, mElse, cnd, hasAttr, getAttr, S] <;> decide
end

end Vuego.Props.C03
