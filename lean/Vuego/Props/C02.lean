/-
C02 — Rendering is faithful: static content and values survive an HTML round trip.
The serialiser half is the same tokenizer theorem as C01's (`render_tokens`): here it is read for *values*:
attribute values and text arrive at the tokenizer decoded to exactly the strings the DOM holds.
Tree-builder stability (tokens ↦ tree) is x/net/html's and is checked per generated document by the round-trip oracle.
-/
import Vuego.Props.C01
import Vuego.Generated.Parse
namespace Vuego.Props.C02
open Go Vuego Html

/-- every element of a well-formed DOM reaches the tokenizer as one start tag whose attribute list is exactly the visible
    attributes with their ORIGINAL values (character references decoded back), and every text node as its ORIGINAL characters -/
theorem render_tokens_faithful (ns : List Node) (h : WFList ns) : tokenize (render ns) = toksList 0 ns :=
  Vuego.Props.C01.render_tokens ns h

/-- escaping then decoding is the identity on every string (the round trip behind the theorem above) -/
theorem unescape_escape (s : Str) : unescape (escape s) = s := by
  induction s with
  | nil => rfl
  | cons c r ih =>
    by_cases h : special c = true
    · simp only [special, Bool.or_eq_true, beq_iff_eq] at h
      rcases h with ((((rfl | rfl) | rfl) | rfl) | rfl) | rfl <;> simp [escape, escChar, unescape, ih]
    · have hs : special c = false := by simpa using h
      simp only [escape, escChar_of_not_special c hs, List.singleton_append]
      simp only [special, Bool.or_eq_false_iff, beq_eq_false_iff_ne, ne_eq] at hs
      have hc : c ≠ '&' := hs.1.1.1.1.1
      rw [unescape.eq_def]
      split <;> simp_all

/-- the carriage return is one of the characters `escape` rewrites: it is written as `&#13;` (written raw, an HTML parser would read it back
    as a line feed), and read back as itself -/
theorem carriage_return_is_written_as_reference :
    escape ['a', '\r', 'b'] = "a&#13;b".toList ∧ unescape "a&#13;b".toList = ['a', '\r', 'b'] := by decide

/-- `v-html`: the evaluated content is written verbatim between the element's tags -/
theorem vhtml_verbatim (parent tag : Str) (indent : Nat) (attrs : List Attr) (kids : List Node) (c : Str)
    (hc : contentAttrs attrs = (c, [])) (hne : c ≠ []) (ht : tag ≠ sTemplate) :
    renderNode parent indent (.elem tag attrs kids) =
      spaces indent ++ '<' :: tag ++ renderAttrs attrs ++ ['>'] ++ c ++ ['<', '/'] ++ tag ++ ['>', '\n'] := by
  have hb : (c != []) = true := by simpa using hne
  have ht' : (tag == sTemplate) = false := by simpa using ht
  simp [renderNode, hc, hb, ht']

/-- WHICH TEXT IS LAYOUT: a text node is left out of the output exactly when every character of it is HTML white space - space, tab, line
    feed, form feed, carriage return … -/
theorem blank_text_iff (d : Str) : blankText d = true ↔ ∀ c ∈ d, c = ' ' ∨ c = '\t' ∨ c = '\n' ∨ c = '\x0c' ∨ c = '\r' := by
  simp [blankText, List.all_eq_true, or_assoc]

/-- … so a text node holding any other character is WRITTEN, all of it - in particular text made of no-break spaces, em spaces or
    ideographic spaces only, which a browser shows (fix: the serialiser used `strings.TrimSpace`, for which those are white space, and
    dropped `&nbsp;` between two elements) -/
theorem text_with_content_is_written (parent : Str) (indent : Nat) (d : Str) (c : Char) (hc : c ∈ d)
    (hn : c ≠ ' ' ∧ c ≠ '\t' ∧ c ≠ '\n' ∧ c ≠ '\x0c' ∧ c ≠ '\r') :
    renderNode parent indent (.text d) = spaces indent ++ renderTextData (isRawTextTag parent) d := by
  have hb : blankText d = false := by
    cases h : blankText d with
    | false => rfl
    | true =>
      have := (blank_text_iff d).mp h c hc
      rcases this with h1 | h1 | h1 | h1 | h1
      · exact absurd h1 hn.1
      · exact absurd h1 hn.2.1
      · exact absurd h1 hn.2.2.1
      · exact absurd h1 hn.2.2.2.1
      · exact absurd h1 hn.2.2.2.2
  simp [renderNode, hb]

example : renderNode [] 2 (.text ['\u00a0']) = [' ', ' ', '\u00a0'] ∧ renderNode [] 2 (.text ['\u3000']) = [' ', ' ', '\u3000']
    ∧ renderNode [] 2 (.text [' ', '\n', '\t']) = [] := by decide

/-- the full document's doctype is written (as `<!DOCTYPE name>`), when the source says so -/
theorem doctype_written (parent : Str) (indent : Nat) (d : Str) (h : Generated.rendersDoctype = true) :
    renderNode parent indent (.doctype d) = sDoctypeOpen ++ d ++ ['>', '\n'] := by
  simp [renderNode, h]

theorem source_renders_doctype : Generated.rendersDoctype = true := by decide

/-- RECORDED FINDING `void-br-end-tag`: every element gets an explicit end tag, void elements included; for `br` the HTML5
    tree builder turns `</br>` into a second `<br>` element (external fact, observed on every run by the round-trip oracle). -/
theorem void_element_end_tag_counterexample :
    tokenize (render [.elem ['b', 'r'] [] []]) = [.startTag ['b', 'r'] [] false, .endTag ['b', 'r'], .ch '\n'] := by
  decide

/-- PARTIAL statement of "void elements round-trip": it holds for the token stream of every non-`br` void element because the
    tree builder ignores their end tags; the model cannot express the tree builder, so this part is carried by the oracle. -/
theorem void_elements_partial (tag : Str) (attrs : List Attr) (ht : WFTag tag) (hnt : tag ≠ sTemplate) (hraw : isRawTextTag tag = false)
    (hca : contentAttrs attrs = ([], [])) (ha : ∀ kv ∈ visibleAttrs attrs, WFAttrName kv.1) :
    tokenize (render [.elem tag attrs []]) = [.startTag tag (visibleAttrs attrs) false, .endTag tag, .ch '\n'] := by
  have h : WFList [.elem tag attrs []] := by
    simp only [WFList, WFNode, and_true]
    exact ⟨ht, hnt, hraw, hca, ha⟩
  rw [Vuego.Props.C01.render_tokens _ h]
  simp [toksList, toksNode, kidShape, spaces]

/-- the source tells a full document from a fragment by the presence of an `</html>` end tag anywhere in the input (the property's fourth
    anchor); the round-trip oracle parses every source that contains one as a document, independently of the library's choice -/
theorem source_document_rule : Generated.documentRule = "contains(input, \"</html>\")" := by decide

/-! non-vacuity -/
example : unescape (escape "a < b & \"c\" 'd' > &amp;".toList) = "a < b & \"c\" 'd' > &amp;".toList := unescape_escape _

end Vuego.Props.C02
