/-
C16 — "distinct v-once elements, in the same file or in different components, never suppress one another": the ids `assignSeenAttrs` gives the
marked elements of ONE file are pairwise different, for every forest (the other half — ids of different files differ — is in Props/C16).
-/
import Vuego.Props.C16
import Std.Data.String.ToNat
namespace Vuego.Props.C16
open Go Vuego

-- the ids carried by the marked elements of a forest, in document order
mutual
def onceIdsNode : Node → List Str
  | .elem _ attrs kids => (if hasAttr attrs (S "v-once") then [getAttr attrs (S "v-once-id")] else []) ++ onceIdsList kids
  | _ => []
def onceIdsList : List Node → List Str
  | [] => []
  | x :: r => onceIdsNode x ++ onceIdsList r
end

theorem getAttr_setAttr_same : ∀ (a : List Attr) (k v : Str), getAttr (setAttr a k v) k = v
  | [], k, v => by simp [setAttr, getAttr]
  | (k', v') :: r, k, v => by
    unfold setAttr
    by_cases h : k' = k
    · subst h; simp [getAttr]
    · have h' : (k' == k) = false := by simpa using h
      have h'' : (k == k') = false := by simpa using (fun e : k = k' => h e.symm)
      have ih := getAttr_setAttr_same r k v
      simp only [getAttr] at ih ⊢
      simp only [h', Bool.false_eq_true, ↓reduceIte, List.lookup, h'']
      exact ih

theorem hasAttr_setAttr_keeps : ∀ (a : List Attr) (k v k' : Str), hasAttr a k' = true → hasAttr (setAttr a k v) k' = true
  | [], _, _, _, h => by simp [hasAttr] at h
  | (k0, v0) :: r, k, v, k', h => by
    unfold setAttr
    by_cases hk : (k0 == k) = true
    · simp only [hk, ↓reduceIte]
      simp only [hasAttr, List.any_cons, Bool.or_eq_true] at h ⊢
      rcases h with h | h
      · left; have : k0 = k := by simpa using hk
        subst this; exact h
      · right; exact h
    · have hk' : (k0 == k) = false := by simpa using hk
      simp only [hk', Bool.false_eq_true, ↓reduceIte]
      simp only [hasAttr, List.any_cons, Bool.or_eq_true] at h ⊢
      rcases h with h | h
      · left; exact h
      · right; exact hasAttr_setAttr_keeps r k v k' h

/-- THE IDS OF ONE FILE, IN DOCUMENT ORDER, ARE `file#(n+1)`, `file#(n+2)`, … — one per marked element, consecutive, nothing else -/
theorem ids_are_consecutive (file : Str) :
    (∀ (x : Node) (n : Nat), onceIdsNode (assignIdsNode file n x).1 =
        (List.range' (n + 1) ((assignIdsNode file n x).2 - n)).map (fun k => file ++ '#' :: natToStr k)) ∧
    (∀ (xs : List Node) (n : Nat), onceIdsList (assignIdsList file n xs).1 =
        (List.range' (n + 1) ((assignIdsList file n xs).2 - n)).map (fun k => file ++ '#' :: natToStr k)) := by
  suffices h : ∀ k, (∀ (x : Node) (n : Nat), x.size ≤ k → onceIdsNode (assignIdsNode file n x).1 =
        (List.range' (n + 1) ((assignIdsNode file n x).2 - n)).map (fun k => file ++ '#' :: natToStr k)) ∧
      (∀ (xs : List Node) (n : Nat), Node.sizeList xs ≤ k → onceIdsList (assignIdsList file n xs).1 =
        (List.range' (n + 1) ((assignIdsList file n xs).2 - n)).map (fun k => file ++ '#' :: natToStr k)) by
    exact ⟨fun x n => (h x.size).1 x n (Nat.le_refl _), fun xs n => (h (Node.sizeList xs)).2 xs n (Nat.le_refl _)⟩
  intro k
  induction k with
  | zero =>
    constructor
    · intro x n hk; cases x <;> simp [Node.size] at hk
    · intro xs n hk
      cases xs with
      | nil => simp [assignIdsList, onceIdsList]
      | cons x r => cases x <;> simp [Node.sizeList, Node.size] at hk
  | succ k ih =>
    have node : ∀ (x : Node) (n : Nat), x.size ≤ k + 1 → onceIdsNode (assignIdsNode file n x).1 =
        (List.range' (n + 1) ((assignIdsNode file n x).2 - n)).map (fun k => file ++ '#' :: natToStr k) := by
      intro x n hk
      cases x with
      | elem tag attrs kids =>
        simp only [Node.size] at hk
        simp only [assignIdsNode]
        by_cases hm : hasAttr attrs (S "v-once") = true
        · simp only [hm, ↓reduceIte, onceIdsNode, hasAttr_setAttr_keeps _ _ _ _ hm, getAttr_setAttr_same]
          have hk' := ih.2 kids (n + 1) (by omega)
          have hmono := (ids_counter_monotone file).2 (n + 1) kids
          rw [hk']
          have : (assignIdsList file (n + 1) kids).2 - n = ((assignIdsList file (n + 1) kids).2 - (n + 1)) + 1 := by omega
          rw [this, List.range'_succ]
          simp
        · have hm' : hasAttr attrs (S "v-once") = false := by simpa using hm
          simp only [hm', Bool.false_eq_true, ↓reduceIte, onceIdsNode, List.nil_append]
          exact ih.2 kids n (by omega)
      | text d => simp [assignIdsNode, onceIdsNode]
      | comment d => simp [assignIdsNode, onceIdsNode]
      | doctype d => simp [assignIdsNode, onceIdsNode]
    refine ⟨node, ?_⟩
    intro xs n hk
    cases xs with
    | nil => simp [assignIdsList, onceIdsList]
    | cons x r =>
      simp only [Node.sizeList] at hk
      have hx1 : 1 ≤ x.size := by cases x <;> simp [Node.size]
      simp only [assignIdsList, onceIdsList]
      rw [node x n (by omega), ih.2 r _ (by omega)]
      have h1 := (ids_counter_monotone file).1 n x
      have h2 := (ids_counter_monotone file).2 (assignIdsNode file n x).2 r
      rw [← List.map_append]
      congr 1
      have e : (assignIdsNode file n x).2 + 1 = (n + 1) + ((assignIdsNode file n x).2 - n) := by omega
      rw [e, List.range'_append_1]
      congr 1
      omega

theorem natToStr_injective {a b : Nat} (h : natToStr a = natToStr b) : a = b := by
  unfold natToStr at h
  have h' : toString a = toString b := String.toList_inj.mp h
  exact Nat.repr_injective h'

/-- DISTINCT MARKED ELEMENTS OF ONE FILE NEVER SHARE AN ID: for every forest, the ids `assignSeenAttrs` writes on the marked elements are
    pairwise different — so within a file no `v-once` element can suppress another one, however many there are and wherever they sit -/
theorem ids_within_file_distinct (file : Str) (xs : List Node) : (onceIdsList (assignSeenAttrs file xs)).Pairwise (· ≠ ·) := by
  unfold assignSeenAttrs
  rw [(ids_are_consecutive file).2 xs 0, List.pairwise_map]
  refine List.Pairwise.imp ?_ (List.pairwise_lt_range' (s := 0 + 1) (n := (assignIdsList file 0 xs).2 - 0) (step := 1) (by omega))
  intro a b hlt he
  have := natToStr_injective (List.cons.inj (List.append_cancel_left he)).2
  omega

/-- … and every marked element gets one: as many ids as the counter advanced -/
theorem ids_count (file : Str) (xs : List Node) : (onceIdsList (assignSeenAttrs file xs)).length = (assignIdsList file 0 xs).2 := by
  unfold assignSeenAttrs
  rw [(ids_are_consecutive file).2 xs 0]; simp

/-! non-vacuity: five marked elements at different depths, five different ids -/
example : onceIdsList (assignSeenAttrs (S "p") [.elem (S "i") [(S "v-once", [])] [.elem (S "b") [(S "v-once", [])] []], .text (S "t"),
      .elem (S "u") [] [.elem (S "b") [(S "v-once", [])] [], .elem (S "b") [(S "v-once", [])] []], .elem (S "s") [(S "v-once", [])] []]) =
    [S "p#1", S "p#2", S "p#3", S "p#4", S "p#5"] := by rfl

end Vuego.Props.C16
