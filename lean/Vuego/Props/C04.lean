/-
C04 — v-for renders one scoped instance per item, in order, and restores the scope.
Model: Vuego/Model/Eval.lean (evalVFor / evalFor / evalForItems / propagateTemplateAttributes). All theorems hold for every
World (files, components, expression evaluator), every fuel, every node and every stack.
-/
import Vuego.Lemmas.EvalInv
namespace Vuego.Props.C04
open Go Vuego

/-- (1) one instance per item, in order: the instances of `x :: xs` are the instance of `x` (evaluated in a fresh scope binding the
    loop variable — and the zero-based index in the two-variable form), followed by the instances of `xs` with the next index. -/
theorem for_instances_in_order (W : World) (f : Nat) (ctx : Ctx) (st : St) (tag : Str) (attrs : List Attr) (kids : List Node)
    (vars : List Str) (x : Val) (xs : List Val) (i : Nat) (sk : Stack) (h : loopStack st.stack vars x i = some sk) :
    evalForItems W (f + 1) ctx st tag attrs kids vars (x :: xs) i =
      bindR (evalList W f ctx { st with stack := sk } [.elem tag attrs kids]) (fun res st1 =>
        prepend res (evalForItems W f ctx { st1 with stack := (propagateNode W.P.cfg st1.stack (.elem tag attrs kids)).pop } tag attrs kids vars xs (i + 1))) := by
  simp only [evalForItems, h]

/-- the scope of one instance: exactly the loop variable(s) on top of the unchanged outer stack -/
theorem loop_scope_one_var (s : Stack) (v : Str) (x : Val) (i : Nat) :
    loopStack s [v] x i = some { scopes := s.scopes ++ [[(v, x)]], root := s.root } := by
  simp [loopStack, Stack.push, Stack.set, Stack.setTop_concat, Scope.set]

theorem loop_scope_index_item (s : Stack) (iv v : Str) (x : Val) (i : Nat) (hne : iv ≠ v) :
    loopStack s [iv, v] x i = some { scopes := s.scopes ++ [[(iv, .int .int i), (v, x)]], root := s.root } := by
  have : (iv == v) = false := by simpa using hne
  simp [loopStack, Stack.push, Stack.set, Stack.setTop_concat, Scope.set, this]

/-- (2) empty, nil-slice and every non-sequence collection (missing, nil, numbers, strings, structs, …) produce nothing and leave
    the state alone -/
theorem for_empty_produces_nothing (W : World) (f : Nat) (ctx : Ctx) (st : St) (tag : Str) (attrs : List Attr) (kids : List Node) (vars : List Str) (i : Nat) :
    evalForItems W (f + 1) ctx st tag attrs kids vars [] i = .ok ([], st) := by
  simp [evalForItems]

theorem for_nonsequence_nothing (W : World) (f : Nat) (ctx : Ctx) (st : St) (tag : Str) (attrs : List Attr) (kids : List Node) (e : Str)
    (vars : List Str) (coll : Str) (v : Option Val) (hp : parseFor e = .ok (vars, coll)) (hr : st.stack.resolve W.P.cfg coll = .ok v)
    (hv : ∀ a xs, v ≠ some (.list a xs)) (hm : ∀ mk kvs, v ≠ some (.map mk kvs)) :
    evalFor W (f + 1) ctx st tag attrs kids e = .ok ([], st) := by
  cases v with
  | none => simp only [evalFor, hp, bindE, hr]
  | some w =>
    cases w with
    | list a xs => exact absurd rfl (hv a xs)
    | map mk kvs => exact absurd rfl (hm mk kvs)
    | _ => simp only [evalFor, hp, bindE, hr]

/-- (3) the scope is restored: whatever the loop body does (nested loops, includes, slots, templates setting variables, errors aside),
    after the whole loop the stack has its depth, every scope below the top one and the root data are untouched, and `seen` only grew.
    (The top scope itself can change only through the documented `<template :x>` write-through of propagateTemplateAttributes.) -/
theorem for_scope_restored (W : World) (f : Nat) (ctx : Ctx) (st st' : St) (tag : Str) (attrs : List Attr) (kids rest : List Node)
    (out : List Node × Nat) (hs : st.stack.scopes ≠ []) (h : evalVFor W f ctx st tag attrs kids rest = .ok (out, st')) :
    Frame st st' :=
  (frameAt W f).vfor ctx st tag attrs kids rest out st' hs h

/-- no `<template>` with a bound attribute anywhere in the looped element -/
def noBoundTemplate : Node → Bool
  | .elem tag attrs kids => !(tag == S "template" && attrs.any (fun a => (isBoundKey a.1).isSome)) && noBoundTemplateList kids
  | _ => true
where noBoundTemplateList : List Node → Bool
  | [] => true
  | n :: r => noBoundTemplate n && noBoundTemplateList r

theorem foldl_id_of_forall {α β : Type} (l : List β) (g : α → β → α) (s : α) (h : ∀ s0 a, a ∈ l → g s0 a = s0) : l.foldl g s = s := by
  induction l generalizing s with
  | nil => rfl
  | cons a r ih =>
    simp only [List.foldl_cons, h s a (by simp)]
    exact ih s (fun s0 x hx => h s0 x (by simp [hx]))

mutual
theorem propagateNode_id (cfg : ReflectCfg) (n : Node) (s : Stack) (hn : noBoundTemplate n = true) : propagateNode cfg s n = s :=
  match n, hn with
  | .text _, _ => rfl
  | .comment _, _ => rfl
  | .doctype _, _ => rfl
  | .elem tag attrs kids, hn => by
    simp only [noBoundTemplate, Bool.and_eq_true, Bool.not_eq_eq_eq_not, Bool.not_true] at hn
    simp only [propagateNode]
    have hkids := propagateList_id cfg kids
    by_cases hc : (tag == S "template" && !hasAttr attrs (S "include")) = true
    · simp only [hc, ↓reduceIte]
      have ht : (tag == S "template") = true := by
        simp only [Bool.and_eq_true] at hc; exact hc.1
      simp only [ht, Bool.true_and] at hn
      have hnone : ∀ a ∈ attrs, isBoundKey a.1 = none := by
        intro a ha
        have := hn.1
        simp only [List.any_eq_false] at this
        have h2 := this a ha
        cases hb : isBoundKey a.1 with
        | none => rfl
        | some x => simp [hb] at h2
      rw [foldl_id_of_forall attrs _ s (by intro s0 a ha; simp only [hnone a ha])]
      exact hkids s hn.2
    · simp only [hc, Bool.false_eq_true, ↓reduceIte]
      exact hkids s hn.2
theorem propagateList_id (cfg : ReflectCfg) (ns : List Node) (s : Stack) (hn : noBoundTemplate.noBoundTemplateList ns = true) : propagateList cfg s ns = s :=
  match ns, hn with
  | [], _ => rfl
  | x :: r, hn => by
    simp only [noBoundTemplate.noBoundTemplateList, Bool.and_eq_true] at hn
    simp only [propagateList]
    rw [propagateNode_id cfg x s hn.1]
    exact propagateList_id cfg r s hn.2
end

/-- (3') without `<template :x>` write-through in the looped element, the loop restores the stack EXACTLY: a variable shadowed by the loop
    variable has its outer value again after the loop, for every collection length -/
theorem for_restores_exactly (W : World) (tag : Str) (attrs : List Attr) (kids : List Node) (vars : List Str)
    (hnb : noBoundTemplate (.elem tag attrs kids) = true) :
    ∀ (f : Nat) (ctx : Ctx) (st st' : St) (xs : List Val) (i : Nat) (out : List Node), st.stack.scopes ≠ [] →
      evalForItems W f ctx st tag attrs kids vars xs i = .ok (out, st') → st'.stack = st.stack := by
  intro f
  induction f with
  | zero => intro ctx st st' xs i out _ h; simp [evalForItems] at h
  | succ f ih =>
    intro ctx st st' xs i out hs h
    cases xs with
    | nil => simp only [evalForItems, Res.ok.injEq, Prod.mk.injEq] at h; rw [← h.2]
    | cons x rest =>
      simp only [evalForItems] at h
      cases hl : loopStack st.stack vars x i with
      | none => simp [hl] at h
      | some sk =>
        simp only [hl] at h
        obtain ⟨res, st1, h1, hk⟩ := bindR_ok h
        obtain ⟨o, ho, _⟩ := prepend_ok hk
        have fpush := loopStack_frame st.stack sk vars x i hl
        have f1 := (frameAt W f).list _ { st with stack := sk } _ _ _ (fpush.nonempty (push_nonempty _ _)) h1
        have hpop : (propagateNode W.P.cfg st1.stack (.elem tag attrs kids)).pop = st.stack := by
          rw [propagateNode_id W.P.cfg _ _ hnb]
          exact pop_of_frame_push st.stack st1.stack [] hs (fpush.trans f1.1)
        rw [hpop] at ho
        have := ih ctx { st1 with stack := st.stack } st' rest (i + 1) o hs ho
        simpa using this

/-- (4) a following `v-else` sibling is rendered exactly when the loop produced nothing: when it produced something, nothing after the
    looped element is consumed … -/
theorem for_else_not_when_nonempty (W : World) (f : Nat) (ctx : Ctx) (st st1 : St) (tag : Str) (attrs : List Attr) (kids rest : List Node)
    (loopNodes : List Node) (hv : getAttr attrs (S "v-for") ≠ [])
    (hl : evalFor W f ctx st tag attrs kids (getAttr attrs (S "v-for")) = .ok (loopNodes, st1)) (hne : loopNodes ≠ []) :
    evalVFor W (f + 1) ctx st tag attrs kids rest = .ok ((loopNodes, 0), st1) := by
  have h1 : (getAttr attrs (S "v-for") == []) = false := by simpa using hv
  have h2 : loopNodes.isEmpty = false := by cases loopNodes <;> simp_all
  simp [evalVFor, h1, hl, bindR, h2]

/-- … and when it produced nothing, the first following element sibling (text and comments in between skipped) is rendered iff it carries
    `v-else` (and, when it is also marked v-once, iff it was not rendered before in this render — `onceGate`) -/
theorem for_else_when_empty (W : World) (f : Nat) (ctx : Ctx) (st st1 : St) (tag : Str) (attrs : List Attr) (kids pre post : List Node)
    (t : Str) (a : List Attr) (k : List Node) (hv : getAttr attrs (S "v-for") ≠ [])
    (hl : evalFor W f ctx st tag attrs kids (getAttr attrs (S "v-for")) = .ok ([], st1))
    (hpre : ∀ n ∈ pre, isElem n = false) :
    evalVFor W (f + 1) ctx st tag attrs kids (pre ++ .elem t a k :: post) =
      if hasAttr a (S "v-else") then
        (match onceGate st1 a with
         | none => .ok (([], 0), st1)
         | some st1' => bindR (evalAsElement W f ctx st1' t a k) (fun res st2 => .ok ((res, pre.length + 1), st2)))
      else .ok (([], 0), st1) := by
  have h1 : (getAttr attrs (S "v-for") == []) = false := by simpa using hv
  have htw : (pre ++ .elem t a k :: post).takeWhile (fun x => !isElem x) = pre := by
    induction pre with
    | nil => simp [isElem]
    | cons n r ih =>
      have hn := hpre n (by simp)
      simp only [List.cons_append, List.takeWhile, hn, Bool.not_false]
      rw [ih (fun x hx => hpre x (by simp [hx]))]
  simp only [evalVFor, h1, Bool.false_eq_true, ↓reduceIte, hl, bindR, List.isEmpty_nil, Bool.not_true, htw]
  simp only [List.getElem?_append_right (Nat.le_refl _), Nat.sub_self, List.getElem?_cons_zero]
  split <;> rfl

/-- an element without v-once always passes the gate unchanged -/
theorem onceGate_plain (st : St) (a : List Attr) (h : hasAttr a (S "v-once") = false) : onceGate st a = some st := by
  simp [onceGate, h]

/-- A PATH ON THE LOOP VARIABLE IS A PATH ON THE ITEM: when the innermost scope binds `n` (as a loop instance binds its variable), a dotted
    or bracketed path that starts with `n` is walked from THAT value - the answer does not mention the scopes below or the root data at all.
    In particular a step the item does not have is absent, although a root field of the same name as the loop variable may have it. -/
theorem path_on_loop_variable_uses_the_item (cfg : ReflectCfg) (s : Stack) (sc : Scope) (n : Str) (v : Val) (rest : List Str) (expr : Str)
    (hdot : containsAny expr ['.', '['] = true) (hsplit : splitPath expr = n :: rest)
    (hb : Scope.get sc n = some v) (hv : v ≠ .nil) :
    (s.push sc).resolve cfg expr = walkPath cfg v rest := by
  have hl : Stack.lookup cfg (s.push sc) n = .ok (some v) := by
    simp [Stack.lookup, Stack.push, Stack.lookupScopes, hb]
  unfold Stack.resolve
  cases v <;> first
    | exact absurd rfl hv
    | simp only [hdot, Bool.not_true, Bool.false_eq_true, ↓reduceIte, hsplit, hl]

/-- ... so two stacks that differ only BELOW the innermost scope - another root, other outer variables - resolve it alike -/
theorem path_on_loop_variable_independent_of_outer (cfg : ReflectCfg) (s s' : Stack) (sc : Scope) (n : Str) (v : Val) (rest : List Str) (expr : Str)
    (hdot : containsAny expr ['.', '['] = true) (hsplit : splitPath expr = n :: rest)
    (hb : Scope.get sc n = some v) (hv : v ≠ .nil) :
    (s.push sc).resolve cfg expr = (s'.push sc).resolve cfg expr := by
  rw [path_on_loop_variable_uses_the_item cfg s sc n v rest expr hdot hsplit hb hv,
      path_on_loop_variable_uses_the_item cfg s' sc n v rest expr hdot hsplit hb hv]

/-- AN ERROR IN THE BODY OF A LOOP FAILS THE LOOP (and with it the render: C12's "otherwise nil means a complete document"): when the
    evaluation of one instance fails, `evalForItems` answers with that error - no later instance is evaluated, nothing is swallowed.
    The model has one iteration for every collection (slices, arrays and maps of any element type arrive as lists of items), so the rule
    does not depend on the kind of collection. -/
theorem loop_body_error_fails_the_loop (W : World) (f : Nat) (ctx : Ctx) (st : St) (tag : Str) (attrs : List Attr) (kids : List Node)
    (vars : List Str) (x : Val) (xs : List Val) (i : Nat) (sk : Stack) (c : String) (m : Str)
    (hs : loopStack st.stack vars x i = some sk)
    (he : evalList W f ctx { st with stack := sk } [.elem tag attrs kids] = .err c m) :
    evalForItems W (f + 1) ctx st tag attrs kids vars (x :: xs) i = .err c m := by
  simp [evalForItems, hs, he, bindR]

/-- ... and an error in a LATER instance fails the loop just the same: the instances before it do not turn it into a success -/
theorem loop_later_error_fails_the_loop (W : World) (f : Nat) (ctx : Ctx) (st st1 : St) (tag : Str) (attrs : List Attr) (kids : List Node)
    (vars : List Str) (x : Val) (xs : List Val) (i : Nat) (sk : Stack) (res : List Node) (c : String) (m : Str)
    (hs : loopStack st.stack vars x i = some sk)
    (h1 : evalList W f ctx { st with stack := sk } [.elem tag attrs kids] = .ok (res, st1))
    (he : evalForItems W f ctx { st1 with stack := (propagateNode W.P.cfg st1.stack (.elem tag attrs kids)).pop } tag attrs kids vars xs (i + 1) = .err c m) :
    evalForItems W (f + 1) ctx st tag attrs kids vars (x :: xs) i = .err c m := by
  simp [evalForItems, hs, h1, he, bindR, prepend]

end Vuego.Props.C04
