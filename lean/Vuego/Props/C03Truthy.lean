/-
C03 (second half) — truthiness follows the documented rule for every Go kind.
`isTruthy` is driven by the type-switch table regenerated from internal/helpers/value.go.
-/
import Vuego.Model.Truthy
namespace Vuego.Props.C03
open Go Vuego

/-- the documented falsy set: `false`, zero of any numeric type, the empty string, nil (undefined is handled by the consumers) -/
def documentedFalsy : Val → Bool
  | .nil => true
  | .bool b => !b
  | .int _ n => n == 0
  | .float _ z _ => z
  | .str s => s == []
  | _ => false

/-- FULL STATEMENT (not provable: the string "false" is falsy in the code, deliberately and pinned by value_test.go). -/
def TruthySpec : Prop := ∀ v : Val, (∀ t p, v = .opaq t p → lookupRule t Generated.truthyTable = none) → isTruthy v = !documentedFalsy v

/-- Truthiness equals the documented rule for every value of every kind — bool, all eleven integer kinds, both float
    kinds, strings, nil, pointers, slices, maps, structs, named types — except the one string "false". -/
theorem truthy_spec_partial (v : Val) (hf : v ≠ .str ['f','a','l','s','e'])
    (hop : ∀ t p, v = .opaq t p → lookupRule t Generated.truthyTable = none) :
    isTruthy v = !documentedFalsy v := by
  cases v with
  | nil => rfl
  | bool b => cases b <;> rfl
  | int k n =>
    cases k <;> simp [isTruthy, isTruthyWith, lookupRule, Generated.truthyTable, Generated.truthyDefault, applyRule, Val.typeName, IntKind.name, documentedFalsy, bne]
  | float k z p =>
    cases k <;> cases z <;>
      simp [isTruthy, isTruthyWith, lookupRule, Generated.truthyTable, Generated.truthyDefault, applyRule, Val.typeName, FloatKind.name, documentedFalsy]
  | str s =>
    have : s ≠ ['f','a','l','s','e'] := fun h => hf (by rw [h])
    simp [isTruthy, isTruthyWith, lookupRule, Generated.truthyTable, Generated.truthyDefault, applyRule, Val.typeName, documentedFalsy, this]
    cases s <;> simp
  | list a xs => rfl
  | map mk kvs => rfl
  | strct fs => rfl
  | ptr t => rfl
  | opaq t p =>
    simp only [isTruthy, isTruthyWith, Val.typeName, hop t p rfl, Option.getD_none, documentedFalsy]
    rfl

/-- the excluded point is a genuine deviation from the documented rule (recorded finding `string-false-falsy`) -/
theorem truthy_string_false_counterexample :
    isTruthy (.str ['f','a','l','s','e']) = false ∧ documentedFalsy (.str ['f','a','l','s','e']) = false := by
  constructor <;> rfl

theorem TruthySpec_false : ¬ TruthySpec := by
  intro h
  have := h (.str ['f','a','l','s','e']) (by intro t p h; cases h)
  rw [truthy_string_false_counterexample.1, truthy_string_false_counterexample.2] at this
  cases this

/-- non-vacuity: zero of a narrow integer kind and of float32 are falsy, a non-zero one truthy -/
example : isTruthy (.int .int8 0) = false ∧ isTruthy (.int .uint16 0) = false ∧ isTruthy (.float .float32 true ['0']) = false ∧ isTruthy (.int .uint8 3) = true := by
  refine ⟨rfl, rfl, rfl, rfl⟩

end Vuego.Props.C03
