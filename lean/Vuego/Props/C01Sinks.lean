/-
C01, part (b) — mustache or directive syntax occurring inside a data value is emitted literally and never evaluated.
Theorems about the sink functions of the evaluator model (interpolate, evalAttributes, v-text/v-html content, loop output).
-/
import Vuego.Lemmas.EvalInv
import Vuego.Model.ExprMini
namespace Vuego.Props.C01
open Go Vuego

/-- (1) one step of interpolation: the text before the first `{{ … }}` is copied, the value's string form is inserted AS IS, and scanning
    continues in the REMAINING INPUT only — the inserted characters are never scanned again, whatever they contain. -/
theorem interpolate_step (P : Params) (s : Stack) (f : Nat) (input : Str) (st en : Nat) (v : Val)
    (h1 : index input ['{', '{'] = some st) (h2 : index (input.drop (st + 2)) ['}', '}'] = some en)
    (hv : evalMustache P s (trimExpr ((input.drop (st + 2)).take en)) = .ok v) :
    interpolateAux P s (f + 1) input =
      match interpolateAux P s f ((input.drop (st + 2)).drop (en + 2)) with
      | .ok rest => .ok (input.take st ++ mustachePiece v ++ rest)
      | e => e := by
  simp only [interpolateAux, h1, h2, hv]
  cases interpolateAux P s f (List.drop (en + 2) (List.drop (st + 2) input)) <;> rfl

/-- input without any `{{` is returned unchanged (in particular the tail after the last mustache) -/
theorem interpolate_no_mustache (P : Params) (s : Stack) (f : Nat) (input : Str) (h : index input ['{', '{'] = none) :
    interpolateAux P s (f + 1) input = .ok input := by
  simp only [interpolateAux, h]

/-- (2) the evaluated v-html / v-text content travels through attribute evaluation verbatim: it is never interpolated, whatever it holds -/
theorem content_attr_not_interpolated (P : Params) (s : Stack) (c : Str) :
    evalAttributes P s [(sVText, c)] = .ok ([(sVText, trimSpace c)], [(sVText, .str (trimSpace c))]) ∧
    evalAttributes P s [(sVHtml, c)] = .ok ([(sVHtml, trimSpace c)], [(sVHtml, .str (trimSpace c))]) := by
  constructor <;> simp [evalAttributes, Scope.get, Scope.set, hasAttr]

/-- (3) v-text stores the value's string form HTML-escaped, so it reaches the serialiser as text -/
theorem vtext_content_is_escaped (P : Params) (s : Stack) (attrs : List Attr) (v : Val)
    (hne : getAttr attrs (S "v-text") ≠ []) (hr : s.resolve P.cfg (getAttr attrs (S "v-text")) = .ok (some v)) :
    evalVContent P s attrs (S "v-text") sVText true = .ok (some (attrs ++ [(sVText, escape v.sprint)])) := by
  have : (getAttr attrs (S "v-text") == []) = false := by simpa using hne
  simp [evalVContent, this, hr]

theorem content_of_some (attrs attrs' : List Attr) (ck : Str) (valR : Res (Option Val))
    (h : (match valR with
      | .ok (some v) => (Res.ok (some (attrs ++ [(ck, escape v.sprint)])) : Res (Option (List Attr)))
      | .ok none => .ok none
      | e => e.castErr) = .ok (some attrs')) :
    ∃ v : Val, attrs' = attrs ++ [(ck, escape v.sprint)] := by
  cases valR with
  | ok o =>
    cases o with
    | some v => simp only [Res.ok.injEq, Option.some.injEq] at h; exact ⟨v, h.symm⟩
    | none => cases h
  | err c m => simp [Res.castErr] at h
  | panic x => simp [Res.castErr] at h
  | hang x => simp [Res.castErr] at h
  | fuel => simp [Res.castErr] at h

/-- (3b) … on EVERY branch of the directive — plain path, filter pipeline, function call: whenever v-text produces content at all, that
    content is the escaped string form of some value; there is no branch on which it is stored raw -/
theorem vtext_content_is_escaped_every_branch (P : Params) (s : Stack) (attrs attrs' : List Attr)
    (h : evalVContent P s attrs (S "v-text") sVText true = .ok (some attrs')) :
    ∃ v : Val, attrs' = attrs ++ [(sVText, escape v.sprint)] := by
  unfold evalVContent at h
  simp only [↓reduceIte] at h
  split at h
  · cases h
  · exact content_of_some attrs attrs' sVText _ h

/-- (4) loop output goes through evaluation once: a non-empty loop returns exactly the nodes its iterations produced (there is no second
    attribute pass over them) -/
theorem loop_output_single_pass (W : World) (f : Nat) (ctx : Ctx) (st st1 : St) (tag : Str) (attrs : List Attr) (kids rest loopNodes : List Node)
    (hv : getAttr attrs (S "v-for") ≠ []) (hl : evalFor W f ctx st tag attrs kids (getAttr attrs (S "v-for")) = .ok (loopNodes, st1)) (hne : loopNodes ≠ []) :
    evalVFor W (f + 1) ctx st tag attrs kids rest = .ok ((loopNodes, 0), st1) := by
  have h1 : (getAttr attrs (S "v-for") == []) = false := by simpa using hv
  have h2 : loopNodes.isEmpty = false := by cases loopNodes <;> simp_all
  simp [evalVFor, h1, hl, bindR, h2]

/-- (5) a component's DOM is evaluated once: evalInclude hands the parsed file (ids assigned, shorthand tags resolved) to `evaluate` directly -/
theorem component_evaluated_once (W : World) (f : Nat) (ctx : Ctx) (st : St) (attrs : List Attr) (kids : List Node) (vars fm : Scope) (dom : List Node)
    (hlim : ¬ ctx.chain.length > includeLimit) (hf : W.files.lookup (getAttr attrs (S "include")) = some (fm, dom))
    (hreq : wrapperRequired (resolveTagsList W.comps (assignSeenAttrs (getAttr attrs (S "include")) dom)) ((setMany (st.stack.push vars) fm).envMap W.P.cfg) = none) :
    evalInclude W (f + 1) ctx st attrs kids vars =
      bindR (evalList W f { ctx with slots := mergeInherited (extractSlotContent kids) ctx.inherited :: ctx.slots, chain := ctx.chain ++ [getAttr attrs (S "include")] }
          { st with stack := setMany (st.stack.push vars) fm } (resolveTagsList W.comps (assignSeenAttrs (getAttr attrs (S "include")) dom)))
        (fun res st1 => .ok (res, { st1 with stack := st1.stack.pop })) := by
  simp only [evalInclude, hlim, ↓reduceIte, hf, hreq]

/-! Non-vacuity / witness: a value that is itself mustache syntax comes out literally; the secret next to it in scope does not. -/
section
def demoP : Params := { exprEval := ExprMini.exprEval, cfg := goodCfg }
def demoStack : Stack := { scopes := [[(S "x", .str (S "{{secret}}")), (S "secret", .str (S "CANARY"))]], root := .nil }
example : interpolate demoP demoStack (S "a {{ x }} b") = .ok (S "a {{secret}} b") := by rfl
example : evalAttributes demoP demoStack [(S ":title", S "x"), (S "alt", S "{{ x }}")] =
    .ok ([(S "alt", S "{{secret}}"), (S "title", S "{{secret}}")], [(S "title", .str (S "{{secret}}")), (S "alt", .str (S "{{secret}}"))]) := by rfl
end

end Vuego.Props.C01
