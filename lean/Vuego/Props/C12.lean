/-
C12 — output is all-or-nothing and writer failures are reported.
Model: Vuego/Model/Entry.lean. Quantifiers: every entry-point kind, every evaluation outcome (any error / any chunk list), every destination
state, every failing offset. `Generated.entryCfg` is re-extracted from vue.go / template_layout.go / template_render.go on every run.
-/
import Vuego.Model.Entry
import Vuego.Generated.EntryFacts
namespace Vuego.Props.C12
open Go Vuego.Entry

def goodCfg : EntryCfg := { vueRenderReportsWriteError := true, layoutReturnsCopyError := true, readerReturnsWriteToError := true }

/-- the source reports destination failures on all three paths -/
theorem source_reports_write_errors : Generated.entryCfg = goodCfg := by decide

/-- (1) an evaluation error (template error, missing file, failing filter, unmet :required …) is returned and NOTHING is written -/
theorem error_implies_nothing_written (cfg : EntryCfg) (kind : Kind) (c : Bool) (e : String) (w : Writer) :
    run cfg kind c (.error e) w = (true, w) := by
  cases c <;> simp [run]

/-- (2) a cancelled context: an error and nothing written, whatever the program -/
theorem cancelled_writes_nothing (cfg : EntryCfg) (kind : Kind) (prog : Except String (List Str)) (w : Writer) :
    run cfg kind true prog w = (true, w) := by
  simp [run]

theorem write_healthy (w : Writer) (p : Str) (h : w.failAt = none) : w.write p = ({ w with written := w.written ++ p }, false) := by
  simp [Writer.write, h]

theorem writeChunks_healthy (w : Writer) (cs : List Str) (h : w.failAt = none) :
    writeChunks w cs = ({ w with written := w.written ++ joinChunks cs }, false) := by
  obtain ⟨wr, fa⟩ := w
  simp only at h; subst h
  induction cs generalizing wr with
  | nil => simp [writeChunks, joinChunks]
  | cons c r ih =>
    simp only [writeChunks, Writer.write]
    rw [ih]
    simp [joinChunks, List.append_assoc]

/-- what a write sequence does to a writer failing at k: the destination holds the document's prefix up to the failing offset, and a failure is
    signalled exactly when the document does not fit -/
theorem writeChunks_failing (w : Writer) (cs : List Str) (k : Nat) (h : w.failAt = some k) (hk : w.written.length ≤ k) :
    (writeChunks w cs).1.written = w.written ++ (joinChunks cs).take (k - w.written.length) ∧
    (writeChunks w cs).1.failAt = some k ∧
    ((writeChunks w cs).2 = true ↔ k - w.written.length < (joinChunks cs).length) := by
  obtain ⟨wr, fa⟩ := w
  simp only at h hk ⊢; subst h
  induction cs generalizing wr with
  | nil => simp [writeChunks, joinChunks]
  | cons c r ih =>
    simp only [writeChunks, Writer.write, joinChunks]
    by_cases hc : c.length ≤ k - wr.length
    · simp only [hc, ↓reduceIte]
      have hlen : (wr ++ c).length ≤ k := by simp only [List.length_append]; omega
      obtain ⟨h1, h2, h3⟩ := ih (wr ++ c) hlen
      refine ⟨?_, h2, ?_⟩
      · rw [h1]
        simp only [List.length_append, List.append_assoc]
        rw [List.take_append]
        have : k - (wr.length + c.length) = k - wr.length - c.length := by omega
        rw [this]
        have htc : List.take (k - wr.length) c = c := List.take_of_length_le hc
        rw [htc]
      · rw [h3]; simp only [List.length_append]; omega
    · simp only [hc, ↓reduceIte]
      have hlt : k - wr.length < c.length := by omega
      refine ⟨?_, trivial, ?_⟩
      · rw [List.take_append_of_le_length (by omega)]
      · simp only [List.length_append, true_iff]; omega

/-- (3) nil ⇒ complete: when an entry point returns no error, the destination has received the whole document (for every kind, every
    destination state, healthy or failing at any offset) -/
theorem nil_implies_complete (kind : Kind) (chunks : List Str) (w : Writer) (hk : ∀ k, w.failAt = some k → w.written.length ≤ k)
    (h : (run goodCfg kind false (.ok chunks) w).1 = false) :
    (run goodCfg kind false (.ok chunks) w).2.written = w.written ++ joinChunks chunks := by
  cases hf : w.failAt with
  | none =>
    cases kind <;> simp [run, writeChunks_healthy w chunks hf, write_healthy w _ hf]
  | some k =>
    have hle := hk k hf
    cases kind with
    | fileNoLayout =>
      obtain ⟨h1, _, h3⟩ := writeChunks_failing w chunks k hf hle
      simp only [run, Bool.false_eq_true, ↓reduceIte, goodCfg, Bool.and_true] at h ⊢
      have hnf : ¬ (k - w.written.length < (joinChunks chunks).length) := by
        intro hlt; rw [h3.mpr hlt] at h; cases h
      rw [h1, List.take_of_length_le (by omega)]
    | layoutChain =>
      simp only [run, Bool.false_eq_true, ↓reduceIte, goodCfg, Bool.and_true, Writer.write, hf] at h ⊢
      split at h <;> simp_all
    | stringLike =>
      simp only [run, Bool.false_eq_true, ↓reduceIte, goodCfg, Bool.and_true, Writer.write, hf] at h ⊢
      split at h <;> simp_all

/-- (4) WRITER FAILURES ARE REPORTED: if the destination fails at an offset the document does not fit under, every entry point returns an error —
    for every chunking of the document, every offset, every prior destination content -/
theorem writer_failure_reported (kind : Kind) (chunks : List Str) (w : Writer) (k : Nat) (hf : w.failAt = some k) (hle : w.written.length ≤ k)
    (hfit : k - w.written.length < (joinChunks chunks).length) :
    (run goodCfg kind false (.ok chunks) w).1 = true := by
  cases kind with
  | fileNoLayout =>
    obtain ⟨_, _, h3⟩ := writeChunks_failing w chunks k hf hle
    simp [run, goodCfg, h3.mpr hfit]
  | layoutChain =>
    have : ¬ (joinChunks chunks).length ≤ k - w.written.length := by omega
    simp [run, goodCfg, Writer.write, hf, this]
  | stringLike =>
    have : ¬ (joinChunks chunks).length ≤ k - w.written.length := by omega
    simp [run, goodCfg, Writer.write, hf, this]

/-- (5) a healthy destination never sees a spurious error -/
theorem healthy_writer_no_error (kind : Kind) (chunks : List Str) (w : Writer) (h : w.failAt = none) :
    run goodCfg kind false (.ok chunks) w = (false, { w with written := w.written ++ joinChunks chunks }) := by
  cases kind <;> simp [run, writeChunks_healthy w chunks h, write_healthy w _ h]

/-- before the repair (`Vue.render` discarding write errors) the file-without-layout path returned nil on a failing destination -/
theorem unrepaired_swallows_failure :
    (run { goodCfg with vueRenderReportsWriteError := false } .fileNoLayout false (.ok [['a', 'b'], ['c']]) { written := [], failAt := some 1 }) = (false, { written := ['a'], failAt := some 1 }) := by
  decide

/-! non-vacuity -/
example : (run goodCfg .fileNoLayout false (.ok [['a', 'b'], ['c']]) { written := [], failAt := some 1 }).1 = true := by decide

end Vuego.Props.C12
