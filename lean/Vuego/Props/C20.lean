/-
C20 — markdown rendering through the default templates.
What is vuego's own here is GLUE: goldmark parses (and is the reference the property compares with), every node kind is sent to a named
template with a data map, children's output is concatenated and handed to the parent as `content`. Model: Vuego/Model/Md.lean, with the
template renderer `T` a parameter (in the correspondence it is the Lean evaluator on the real template files, byte-compared with
markdown.RenderBytes for every generated document).
Proved for EVERY document tree and EVERY template set: literal text reaches the output as written by goldmark's HTML writer and reaches
templates only as DATA (a string value), never as template source; output order is document order; rendering cannot fail unless a template
fails; a template is looked up through the overlay, so a user file replaces exactly the default of the same name (C18); heading ids consist
of [a-z0-9-] only. PARTIAL: agreement of structure and text with the CommonMark reference is decided by the oracle (comparison with
goldmark's own renderer on generated documents), not by a theorem — CommonMark itself is not modelled.
-/
import Vuego.Model.PageRender
import Vuego.Props.C18
namespace Vuego.Props.C20
open Go Vuego Vuego.Md

/-! ### the parser the reference is compared with -/

/-- the document tree the renderer walks is goldmark's, configured with the GFM extension and NOTHING else (regenerated from package
    markdown: every option name it mentions): the CommonMark/GFM reference renderer is the right reference - no attribute syntax, no
    typographer, no footnotes, no custom block or inline parsers that would take text away from the nodes modelled here -/
theorem source_markdown_parser_is_gfm_only : Generated.mdConfigOptions = ["extension.GFM", "goldmark.WithExtensions"] := by decide

/-! ### literal text -/

/-- (1) a text segment is written to the output exactly as goldmark's writer produced it; no template is involved -/
theorem text_is_text (T : Tpl) (e : Str) : renderInline T (.text e false false) = .ok e := by
  simp [renderInline]

theorem text_soft_break (T : Tpl) (e : Str) : renderInline T (.text e false true) = .ok (e ++ ['\n']) := by
  simp [renderInline]

/-- the output does not depend on the template set at all for text-only inline content: mustache braces, `<`, `&` in the source cannot
    reach a template as code -/
theorem text_independent_of_templates (T T' : Tpl) (es : List Str) :
    renderInlines T (es.map fun e => .text e false false) = renderInlines T' (es.map fun e => .text e false false) := by
  induction es with
  | nil => simp [renderInlines]
  | cons e r ih => simp only [List.map_cons, renderInlines, text_is_text, ih]

/-- (2) content reaches a template as a VALUE: the paragraph template is called with `content` bound to the string the children produced —
    it is data in the scope, evaluated by nobody (the v-html sink does not interpolate: C01Sinks.content_attr_not_interpolated) -/
theorem paragraph_content_is_data (T : Tpl) (kids : List Inline) :
    renderBlock T (.paragraph kids) = (renderInlines T kids).bind fun c => T (key "paragraph") [(key "content", .str c)] := by
  simp [renderBlock, sv]

theorem code_is_data (T : Tpl) (language code : Str) :
    renderBlock T (.code language code) = T (key "code_block") [(key "language", .str language), (key "code", .str code)] := by
  simp [renderBlock, sv]

theorem raw_html_block_passes_through (T : Tpl) (raw : Str) : renderBlock T (.htmlBlock raw) = .ok raw := by
  simp [renderBlock]

/-! ### order -/

theorem renderInlines_append (T : Tpl) (a b : List Inline) :
    renderInlines T (a ++ b) = (renderInlines T a).bind fun x => (renderInlines T b).bind fun y => .ok (x ++ y) := by
  induction a with
  | nil =>
    simp only [List.nil_append, renderInlines, Res.bind]
    cases renderInlines T b <;> simp [Res.bind]
  | cons x r ih =>
    simp only [List.cons_append, renderInlines, ih]
    cases renderInline T x with
    | ok s =>
      simp only [Res.bind]
      cases renderInlines T r with
      | ok s2 =>
        simp only [Res.bind]
        cases renderInlines T b <;> simp [Res.bind]
      | _ => simp [Res.bind]
    | _ => simp [Res.bind]

/-- (3) same elements in the same order: the rendering of a sequence of blocks is the concatenation of their renderings, in document order -/
theorem renderBlocks_append (T : Tpl) (a b : List Block) :
    renderBlocks T (a ++ b) = (renderBlocks T a).bind fun x => (renderBlocks T b).bind fun y => .ok (x ++ y) := by
  induction a with
  | nil =>
    simp only [List.nil_append, renderBlocks, Res.bind]
    cases renderBlocks T b <;> simp [Res.bind]
  | cons x r ih =>
    simp only [List.cons_append, renderBlocks, ih]
    cases renderBlock T x with
    | ok s =>
      simp only [Res.bind]
      cases renderBlocks T r with
      | ok s2 =>
        simp only [Res.bind]
        cases renderBlocks T b <;> simp [Res.bind]
      | _ => simp [Res.bind]
    | _ => simp [Res.bind]

/-! ### rendering never fails (unless a template does) -/

def Total (T : Tpl) : Prop := ∀ name data, ∃ s, T name data = .ok s

mutual
theorem renderInline_total (T : Tpl) (hT : Total T) : ∀ (x : Inline), ∃ s, renderInline T x = .ok s
  | .text e hard soft => by
    simp only [renderInline]
    obtain ⟨b, hb⟩ := hT (key "hard_break") []
    cases hard <;> cases soft <;> simp [hb, Res.bind]
  | .str v => ⟨v, by simp [renderInline]⟩
  | .codeSpan c => by simp only [renderInline]; exact hT _ _
  | .emphasis level kids => by
    obtain ⟨c, hc⟩ := renderInlines_total T hT kids
    simp only [renderInline, hc, Res.bind]; exact hT _ _
  | .link href title kids => by
    obtain ⟨c, hc⟩ := renderInlines_total T hT kids
    simp only [renderInline, hc, Res.bind]; exact hT _ _
  | .image src alt title => by simp only [renderInline]; exact hT _ _
  | .autolink href label => by simp only [renderInline]; exact hT _ _
  | .rawHtml c => by simp only [renderInline]; exact hT _ _
  | .strike kids => by
    obtain ⟨c, hc⟩ := renderInlines_total T hT kids
    simp only [renderInline, hc, Res.bind]; exact hT _ _
  | .checkbox ch => by simp only [renderInline]; exact hT _ _
  | .other kids => by simp only [renderInline]; exact renderInlines_total T hT kids
theorem renderInlines_total (T : Tpl) (hT : Total T) : ∀ (xs : List Inline), ∃ s, renderInlines T xs = .ok s
  | [] => ⟨[], by simp [renderInlines]⟩
  | x :: r => by
    obtain ⟨a, ha⟩ := renderInline_total T hT x
    obtain ⟨b, hb⟩ := renderInlines_total T hT r
    exact ⟨a ++ b, by simp [renderInlines, ha, hb, Res.bind]⟩
end

theorem cellVals_total (T : Tpl) (hT : Total T) : ∀ (cs : List (Str × List Inline)), ∃ v, cellVals T cs = .ok v
  | [] => ⟨[], by simp [cellVals]⟩
  | c :: r => by
    obtain ⟨s, hs⟩ := renderInlines_total T hT c.2
    obtain ⟨b, hb⟩ := cellVals_total T hT r
    exact ⟨.map .anyMap [(key "align", sv c.1), (key "content", sv s)] :: b, by simp [cellVals, cellVal, hs, hb, Res.bind]⟩

theorem rowVals_total (T : Tpl) (hT : Total T) : ∀ (rs : List (List (Str × List Inline))), ∃ v, rowVals T rs = .ok v
  | [] => ⟨[], by simp [rowVals]⟩
  | c :: r => by
    obtain ⟨a, ha⟩ := cellVals_total T hT c
    obtain ⟨b, hb⟩ := rowVals_total T hT r
    exact ⟨.list false a :: b, by simp [rowVals, ha, hb, Res.bind]⟩

mutual
theorem renderBlock_total (T : Tpl) (hT : Total T) : ∀ (x : Block), ∃ s, renderBlock T x = .ok s
  | .heading level kids => by
    obtain ⟨c, hc⟩ := renderInlines_total T hT kids
    simp only [renderBlock, hc, Res.bind]; exact hT _ _
  | .paragraph kids => by
    obtain ⟨c, hc⟩ := renderInlines_total T hT kids
    simp only [renderBlock, hc, Res.bind]; exact hT _ _
  | .code language code => by simp only [renderBlock]; exact hT _ _
  | .blockquote kids => by
    obtain ⟨c, hc⟩ := renderBlocks_total T hT kids
    simp only [renderBlock, hc, Res.bind]; exact hT _ _
  | .list ordered start kids => by
    obtain ⟨c, hc⟩ := renderBlocks_total T hT kids
    simp only [renderBlock, hc, Res.bind]; exact hT _ _
  | .listItem kids => by
    obtain ⟨c, hc⟩ := renderBlocks_total T hT kids
    simp only [renderBlock, hc, Res.bind]; exact hT _ _
  | .hr => by simp only [renderBlock]; exact hT _ _
  | .htmlBlock raw => ⟨raw, by simp [renderBlock]⟩
  | .textBlock kids => by simp only [renderBlock]; exact renderInlines_total T hT kids
  | .table headers rows => by
    obtain ⟨h, hh⟩ := cellVals_total T hT headers
    obtain ⟨r, hr⟩ := rowVals_total T hT rows
    simp only [renderBlock, hh, hr, Res.bind]; exact hT _ _
  | .other kids => by simp only [renderBlock]; exact renderBlocks_total T hT kids
theorem renderBlocks_total (T : Tpl) (hT : Total T) : ∀ (xs : List Block), ∃ s, renderBlocks T xs = .ok s
  | [] => ⟨[], by simp [renderBlocks]⟩
  | x :: r => by
    obtain ⟨a, ha⟩ := renderBlock_total T hT x
    obtain ⟨b, hb⟩ := renderBlocks_total T hT r
    exact ⟨a ++ b, by simp [renderBlocks, ha, hb, Res.bind]⟩
end

/-- (4) RENDERING NEVER FAILS for any document, as long as no template fails: the glue adds no failure of its own, whatever the document
    (any nesting, any kinds, any text) -/
theorem render_never_fails (T : Tpl) (hT : Total T) (doc : List Block) : ∃ html, renderBlocks T doc = .ok html :=
  renderBlocks_total T hT doc

/-! ### overrides -/

/-- (5) the template file is looked up in the overlay [content filesystem, embedded defaults]: a user file `markdown/<name>.vuego` is the
    one served exactly when the content layer has it, otherwise the default is — for every name, so an override replaces exactly the
    corresponding default and nothing else (C18.open_first_layer instantiated to two layers) -/
theorem override_replaces_exactly (content defaults : Overlay.Layer) (p : Str) (e : Overlay.Entry) :
    Overlay.«open» [some content, some defaults] p = some (0, e) ↔ content.look p = some e := by
  rw [C18.open_first_layer]
  constructor
  · rintro ⟨L, h1, h2, _⟩
    simp at h1; subst h1; exact h2
  · intro h
    exact ⟨content, by simp, h, by intro j hj; omega⟩

theorem default_used_when_not_overridden (content defaults : Overlay.Layer) (p : Str) (e : Overlay.Entry) (hno : content.look p = none) :
    Overlay.«open» [some content, some defaults] p = some (1, e) ↔ defaults.look p = some e := by
  rw [C18.open_first_layer]
  constructor
  · rintro ⟨L, h1, h2, _⟩
    simp at h1; subst h1; exact h2
  · intro h
    refine ⟨defaults, by simp, h, ?_⟩
    intro j hj L' hL'
    have : j = 0 := by omega
    subst this
    simp at hL'; subst hL'; exact hno

/-! ### heading ids -/

def idChar (c : Char) : Bool := ('a' ≤ c && c ≤ 'z') || ('0' ≤ c && c ≤ '9') || c == '-'

theorem collapseHyphens_mem (c : Char) : ∀ (s : Str) (b : Bool), c ∈ collapseHyphens b s → c ∈ s
  | [], _, h => by simp [collapseHyphens] at h
  | d :: r, b, h => by
    simp only [collapseHyphens] at h
    by_cases hd : (d == '-') = true
    · simp only [hd, ↓reduceIte] at h
      cases b with
      | true => simp only [↓reduceIte] at h; exact List.mem_cons_of_mem _ (collapseHyphens_mem c r true h)
      | false =>
        simp only [Bool.false_eq_true, ↓reduceIte, List.mem_cons] at h
        rcases h with rfl | h
        · simp at hd; simp [hd]
        · exact List.mem_cons_of_mem _ (collapseHyphens_mem c r true h)
    · simp only [hd, Bool.false_eq_true, ↓reduceIte, List.mem_cons] at h
      rcases h with rfl | h
      · simp
      · exact List.mem_cons_of_mem _ (collapseHyphens_mem c r false h)

theorem mem_trim (c : Char) (s cut : Str) (h : c ∈ trim s cut) : c ∈ s := by
  unfold trim at h
  simp only [List.mem_reverse] at h
  have h1 := (List.dropWhile_sublist _).subset h
  simp only [List.mem_reverse] at h1
  exact (List.dropWhile_sublist _).subset h1

theorem mem_trimSpace (c : Char) (s : Str) (h : c ∈ trimSpace s) : c ∈ s := by
  unfold trimSpace trimRight trimLeft at h
  simp only [List.mem_reverse] at h
  have h1 := (List.dropWhile_sublist _).subset h
  simp only [List.mem_reverse] at h1
  exact (List.dropWhile_sublist _).subset h1

/-- (6) a heading id consists of lower-case ASCII letters, digits and hyphens only — whatever the heading contains (markup, quotes, braces),
    nothing of it can break out of the id attribute -/
theorem headingID_charset (content : Str) (c : Char) (h : c ∈ headingID content) : idChar c = true := by
  unfold headingID at h
  have h1 := mem_trim c _ _ h
  have h2 := collapseHyphens_mem c _ _ h1
  simp only [List.mem_map] at h2
  obtain ⟨d, hd, rfl⟩ := h2
  have h3 := mem_trimSpace d _ hd
  simp only [List.mem_filter] at h3
  have hp := h3.2
  by_cases hs : d = ' '
  · subst hs; decide
  · have : (d == ' ') = false := by simpa using hs
    simp only [this, Bool.false_eq_true, ↓reduceIte]
    simp only [this, Bool.or_false] at hp
    simpa [idChar] using hp

example : headingID "Hello <b>World</b> & \"x\" {{ y }}".toList = "hello-world-x-y".toList := by decide

/-! non-vacuity: a total template set and a nested document -/
example : ∃ html, renderBlocks (fun n _ => .ok n) [.blockquote [.paragraph [.text ['a'] false false, .emphasis 2 [.text ['b'] false true]]], .hr] = .ok html :=
  render_never_fails _ (fun n _ => ⟨n, rfl⟩) _

end Vuego.Props.C20
