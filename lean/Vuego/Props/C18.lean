/-
C18 — An overlay filesystem serves every path from the first layer that has it.
Property theorems only. Model: Vuego/Model/Overlay.lean (hand-written, loop-for-loop from overlay_fs.go);
`Generated.overlayErrRule` is re-extracted from the source on every run.
-/
import Vuego.Lemmas.Overlay
import Vuego.Generated.Overlay
import Vuego.Generated.MdFacts
namespace Vuego.Props.C18
open Go Vuego.Overlay

/-- The overlay as the code has it now: the error rule of ReadDir is what the extractor found in the source. -/
def readDir (c : Chain) (p : Str) : Option (List MEntry) := readDirWith Generated.overlayErrRule c p

/-- the overlay implements exactly Open, ReadDir and Glob: every other io/fs helper (fs.ReadFile, fs.Stat) goes through `Open`, so the
    first-layer rule of (1) is also the rule for reading a file. An added ReadFile/Stat/Sub method would need its own theorem. -/
theorem source_overlay_methods : Generated.overlayMethods = ["Glob", "Open", "ReadDir"] := by decide

/-- (1) `Open` serves `p` from layer `k` with entry `e` exactly when layer `k` is the first non-nil layer that has `p`. -/
theorem open_first_layer (c : Chain) (p : Str) (k : Nat) (e : Entry) :
    «open» c p = some (k, e) ↔
      ∃ L : Layer, c[k]? = some (some L) ∧ L.look p = some e ∧
        ∀ j < k, ∀ L' : Layer, c[j]? = some (some L') → L'.look p = none := by
  constructor
  · intro h
    obtain ⟨j, L, hk, hj, hl, hb⟩ := openFrom_some h
    simp only [Nat.zero_add] at hk; subst hk
    exact ⟨L, hj, hl, hb⟩
  · rintro ⟨L, hk, hl, hb⟩
    cases h : «open» c p with
    | none =>
      have := openFrom_none h k L hk
      rw [hl] at this; cases this
    | some r =>
      obtain ⟨k', e'⟩ := r
      obtain ⟨j, L2, hk2, hj2, hl2, hb2⟩ := openFrom_some h
      simp only [Nat.zero_add] at hk2; subst hk2
      have hkk : k' = k := by
        rcases Nat.lt_trichotomy k' k with hlt | heq | hgt
        · have := hb k' hlt L2 hj2; rw [hl2] at this; cases this
        · exact heq
        · have := hb2 k hgt L hk; rw [hl] at this; cases this
      subst hkk
      rw [hk] at hj2; cases hj2
      rw [hl] at hl2; cases hl2; rfl

/-- (2) a path present in no layer reports not-exist (nil layers are skipped by construction of the quantifier). -/
theorem open_absent_iff (c : Chain) (p : Str) :
    «open» c p = none ↔ ∀ (j : Nat) (L : Layer), c[j]? = some (some L) → L.look p = none := by
  constructor
  · exact openFrom_none
  · intro h
    cases h' : «open» c p with
    | none => rfl
    | some r =>
      obtain ⟨k, e⟩ := r
      obtain ⟨j, L, _, hj, hl, _⟩ := openFrom_some h'
      have := h j L hj; rw [hl] at this; cases this

/-- (1b) METADATA come from that layer alone: `fs.Stat` on the overlay answers with the kind and size of the entry held by the first non-nil
    layer that has the path — nothing of a lower layer's entry of the same name shows -/
theorem stat_first_layer (c : Chain) (p : Str) (k : Nat) (d : Bool) (n : Nat) :
    stat c p = some (k, d, n) ↔
      ∃ (L : Layer) (e : Entry), c[k]? = some (some L) ∧ L.look p = some e ∧ e.info = (d, n) ∧
        ∀ j < k, ∀ L' : Layer, c[j]? = some (some L') → L'.look p = none := by
  unfold stat
  constructor
  · intro h
    cases ho : «open» c p with
    | none => rw [ho] at h; cases h
    | some r =>
      obtain ⟨k', e⟩ := r
      rw [ho] at h
      simp only [Option.map_some, Option.some.injEq, Prod.mk.injEq] at h
      obtain ⟨hk, hi⟩ := h
      subst hk
      obtain ⟨L, h1, h2, h3⟩ := (open_first_layer c p k' e).mp ho
      exact ⟨L, e, h1, h2, hi, h3⟩
  · rintro ⟨L, e, h1, h2, hi, h3⟩
    rw [(open_first_layer c p k e).mpr ⟨L, h1, h2, h3⟩]
    simp [hi]

/-- (2b) … and a path in no layer has no metadata either: in particular an overlay whose layers are all nil reports not-exist for every
    name, the root included -/
theorem stat_absent_iff (c : Chain) (p : Str) :
    stat c p = none ↔ ∀ (j : Nat) (L : Layer), c[j]? = some (some L) → L.look p = none := by
  unfold stat
  rw [Option.map_eq_none_iff]
  exact open_absent_iff c p

theorem stat_of_nil_layers (n : Nat) (p : Str) : stat (List.replicate n none) p = none := by
  rw [stat_absent_iff]
  intro j L h
  rw [List.getElem?_replicate] at h
  split at h <;> cases h

/-- (3) the listing is strictly sorted by name (so it is duplicate-free), whatever the rule. -/
theorem readdir_sorted (c : Chain) (p : Str) (l : List MEntry) (h : readDir c p = some l) :
    l.Pairwise (fun a b => a.1 < b.1) := by
  have hl := readDirWith_some h
  subst hl
  · exact sortByName_sorted _ (readDir_inv c p).nodup

/-- (4) a name is listed exactly when some layer's listing of that directory has it. -/
theorem readdir_union (c : Chain) (p : Str) (l : List MEntry) (h : readDir c p = some l) (n : Str) :
    (∃ e ∈ l, e.1 = n) ↔ ∃ j es, listingAt c j p = some es ∧ ∃ d, (n, d) ∈ es := by
  have hl := readDirWith_some h
  subst hl
  · have inv := readDir_inv c p
    have : (∃ e ∈ sortByName (readDirLoop 0 c p {}).merged, e.1 = n) ↔ n ∈ Names (readDirLoop 0 c p {}).merged := by
      rw [mem_names]
      constructor
      · rintro ⟨e, he, hn⟩; exact ⟨e, (mem_sortByName _ _).mp he, hn⟩
      · rintro ⟨e, he, hn⟩; exact ⟨e, (mem_sortByName _ _).mpr he, hn⟩
    rw [this, inv.mem]
    constructor
    · rintro ⟨j, _, es, hes, d⟩; exact ⟨j, es, hes, d⟩
    · rintro ⟨j, es, hes, d⟩
      refine ⟨j, ?_, es, hes, d⟩
      unfold listingAt at hes
      cases hget : c[j]? with
      | none => simp [hget] at hes
      | some x => exact (List.getElem?_eq_some_iff.mp hget).1

/-- (5) every listed entry is the entry of the *first* layer whose listing has that name: an upper entry shadows lower ones. -/
theorem readdir_shadow (c : Chain) (p : Str) (l : List MEntry) (h : readDir c p = some l) :
    ∀ e ∈ l, ∃ es, listingAt c e.2.2 p = some es ∧ (e.1, e.2.1) ∈ es ∧
      ∀ j < e.2.2, ∀ es', listingAt c j p = some es' → ∀ d, (e.1, d) ∉ es' := by
  have hl := readDirWith_some h
  subst hl
  · intro e he
    exact ((readDir_inv c p).src e ((mem_sortByName _ _).mp he)).2

/-- (6) with a found-flag rule, ReadDir fails exactly when no layer has the directory … -/
theorem readdir_error_iff_byFound (c : Chain) (p : Str) :
    readDirWith .byFound c p = none ↔
      (∀ j, listingAt c j p = none) ∧ ∃ (j : Nat) (L : Layer), c[j]? = some (some L) := by
  have inv := readDir_inv c p
  unfold readDirWith
  simp only []
  constructor
  · intro h
    split at h
    · rename_i hc
      simp only [Bool.and_eq_true, Bool.not_eq_eq_eq_not, Bool.not_true] at hc
      obtain ⟨hf, hl⟩ := hc
      refine ⟨?_, ?_⟩
      · intro j
        cases hj : listingAt c j p with
        | none => rfl
        | some es =>
          have : (readDirLoop 0 c p {}).found = true := inv.found.mpr ⟨j, by
            unfold listingAt at hj
            cases hget : c[j]? with
            | none => simp [hget] at hj
            | some x => exact (List.getElem?_eq_some_iff.mp hget).1, by simp [hj]⟩
          rw [hf] at this; cases this
      · obtain ⟨j, _, L, hL, _⟩ := inv.lastErr.mp hl
        exact ⟨j, L, hL⟩
    · cases h
  · rintro ⟨hall, j, L, hL⟩
    have hf : (readDirLoop 0 c p {}).found = false := by
      cases hfd : (readDirLoop 0 c p {}).found with
      | false => rfl
      | true =>
        obtain ⟨j', _, hs⟩ := inv.found.mp hfd
        rw [hall j'] at hs; cases hs
    have hl : (readDirLoop 0 c p {}).lastErr = true := by
      apply inv.lastErr.mpr
      refine ⟨j, (List.getElem?_eq_some_iff.mp hL).1, L, hL, ?_⟩
      have := hall j
      simpa [listingAt, hL] using this
    simp [hf, hl]

/-- the markdown renderer's use of the overlay (regenerated from package markdown): the content filesystem is laid over the embedded
    templates by at least one statement, and under no condition other than "a content filesystem was given" - in particular not under a
    test of what that filesystem lists. Which layer serves a template path is then decided by `Open` alone (`open_first_layer` below), path
    by path, at the time of the request. -/
theorem source_markdown_overlay_unconditional :
    0 < Generated.mdOverlayCalls ∧ ∀ g ∈ Generated.mdOverlayGuards, g = "P != nil" := by decide

/-- … and the source uses such a rule. (Fails to check, and the check reports it, when the source's rule is `len(merged) == 0 && lastErr != nil`.) -/
theorem source_rule_is_byFound : Generated.overlayErrRule = .byFound := by decide

/-- (6, as the property states it) ReadDir fails exactly when no layer has the directory (an all-nil chain lists nothing, without error). -/
theorem readdir_error_iff (c : Chain) (p : Str) :
    readDir c p = none ↔ (∀ j, listingAt c j p = none) ∧ ∃ (j : Nat) (L : Layer), c[j]? = some (some L) := by
  unfold readDir; rw [source_rule_is_byFound]; exact readdir_error_iff_byFound c p

/-- the `len(merged) == 0` rule is genuinely wrong: an existing empty directory in one layer plus a layer that lacks it is an error. -/
theorem readdir_byEmpty_counterexample :
    let A : Layer := { look := fun p => if p = ['d'] then some (.dir []) else none, glob := fun _ => [] }
    let B : Layer := { look := fun _ => none, glob := fun _ => [] }
    readDirWith .byEmpty [some A, some B] ['d'] = none ∧ listingAt [some A, some B] 0 ['d'] = some [] := by
  decide

/-- (7) Glob: strictly sorted (hence duplicate-free) … -/
theorem glob_sorted_nodup (c : Chain) (pat : Str) : (glob c pat).Pairwise (· < ·) :=
  sortDedup_sorted _

/-- … union of the non-nil layers' matches. -/
theorem glob_union (c : Chain) (pat x : Str) :
    x ∈ glob c pat ↔ ∃ (j : Nat) (L : Layer), c[j]? = some (some L) ∧ x ∈ L.glob pat := by
  unfold glob; rw [mem_sortDedup, mem_globUnion]

/-! Non-vacuity: a concrete three-layer chain (nil layer in the middle) on which the statements have content. -/
section
def exA : Layer := { look := fun p => if p = ['d'] then some (.dir [(['x'], false), (['z'], false)]) else if p = ['f'] then some (.file ['A']) else none,
                     glob := fun _ => [['d','/','z'], ['d','/','x']] }
def exB : Layer := { look := fun p => if p = ['d'] then some (.dir [(['x'], true), (['y'], false)]) else if p = ['f'] then some (.file ['B']) else none,
                     glob := fun _ => [['d','/','x'], ['d','/','y']] }
example : «open» [none, some exA, some exB] ['f'] = some (1, .file ['A']) := by decide
example : readDirWith .byFound [none, some exA, some exB] ['d'] = some [(['x'], false, 1), (['y'], false, 2), (['z'], false, 1)] := by decide
example : glob [none, some exA, some exB] ['*'] = [['d','/','x'], ['d','/','y'], ['d','/','z']] := by decide
end

end Vuego.Props.C18
