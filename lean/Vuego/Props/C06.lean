/-
C06 — slots receive the matching content, fall back otherwise, and stay per-instance.
Model: extractSlotContent, evalSlot, evalInclude's slot scope.
-/
import Vuego.Lemmas.EvalInv
namespace Vuego.Props.C06
open Go Vuego

/-- (1) PER-INSTANCE: a component is evaluated with the content supplied on ITS OWN tag as the innermost slot scope; the scopes of the
    surrounding instances follow it and are consulted by nobody's `<slot>` lookup (see (2)) — they only serve `<slot>` elements that occur
    INSIDE supplied content, which belong to the includer. -/
theorem include_pushes_own_slot_content (W : World) (f : Nat) (ctx : Ctx) (st : St) (attrs : List Attr) (kids : List Node) (vars fm : Scope) (dom : List Node)
    (hd : ¬ ctx.chain.length > includeLimit) (hf : W.files.lookup (getAttr attrs (S "include")) = some (fm, dom))
    (hr : wrapperRequired (resolveTagsList W.comps (assignSeenAttrs (getAttr attrs (S "include")) dom)) ((setMany (st.stack.push vars) fm).envMap W.P.cfg) = none) :
    evalInclude W (f + 1) ctx st attrs kids vars =
      bindR (evalList W f { ctx with slots := mergeInherited (extractSlotContent kids) ctx.inherited :: ctx.slots, chain := ctx.chain ++ [getAttr attrs (S "include")] }
              { st with stack := setMany (st.stack.push vars) fm } (resolveTagsList W.comps (assignSeenAttrs (getAttr attrs (S "include")) dom)))
        (fun res st1 => .ok (res, { st1 with stack := st1.stack.pop })) := by
  simp only [evalInclude, hd, ↓reduceIte, hf, hr]

/-- (1b) what an instance's scope holds: the content supplied on its own tag, and — for names the tag supplied nothing for — the named slots
    the PAGE handed to the layout the instance is rendered in (none outside a layout). The tag's own content always wins. -/
theorem mergeInherited_nil (own : SlotScope) : mergeInherited own [] = own := rfl

theorem mergeInherited_keeps_own (own inherited : SlotScope) (name : Str) (c : SlotContent) (h : own.lookup name = some c) :
    (mergeInherited own inherited).lookup name = some c := by
  unfold mergeInherited
  induction inherited generalizing own with
  | nil => exact h
  | cons e r ih =>
    simp only [List.foldl_cons]
    apply ih
    split
    · exact h
    · rename_i hn
      rw [List.lookup_append]
      simp [h]

theorem mergeInherited_fills (own inherited : SlotScope) (name : Str) (c : SlotContent)
    (ho : own.lookup name = none) (hi : inherited.lookup name = some c) :
    (mergeInherited own inherited).lookup name = some c := by
  unfold mergeInherited
  induction inherited generalizing own with
  | nil => simp at hi
  | cons e r ih =>
    obtain ⟨n, c'⟩ := e
    simp only [List.foldl_cons]
    simp only [List.lookup] at hi
    split at hi
    · -- this entry is the one: it is appended (own has nothing under the name) and kept by the rest of the fold
      rename_i hn
      have hn' : name = n := by simpa using hn
      subst hn'
      simp only [Option.some.injEq] at hi; subst hi
      have : (own.lookup name).isSome = false := by simp [ho]
      simp only [this, Bool.false_eq_true, ↓reduceIte]
      have hl : (own ++ [(name, c')]).lookup name = some c' := by
        rw [List.lookup_append]; simp [ho]
      exact mergeInherited_keeps_own _ r name c' hl
    · rename_i hn
      apply ih _ _ hi
      split
      · exact ho
      · rw [List.lookup_append]
        simp only [ho, Option.none_or, List.lookup]
        have : (name == n) = false := by simpa using hn
        simp [this]

/-- (2) a `<slot>` looks its name up in the INNERMOST scope only (the content supplied on this instance's own tag): when that has nothing
    for the name the fallback children are rendered — whatever the surrounding instances were given (`outer` is arbitrary) … -/
theorem slot_fallback_when_unsupplied (W : World) (f : Nat) (ctx : Ctx) (st : St) (attrs : List Attr) (kids : List Node) (sc : SlotScope) (outer : List SlotScope)
    (hc : ctx.slots = sc :: outer)
    (h : sc.lookup (if getAttr attrs (S "name") == [] then S "default" else getAttr attrs (S "name")) = none)
    (hi : ctx.inherited.lookup (if getAttr attrs (S "name") == [] then S "default" else getAttr attrs (S "name")) = none) :
    evalSlot W (f + 1) ctx st attrs kids = if !kids.isEmpty then evalList W f ctx st kids else .ok ([], st) := by
  simp only [evalSlot, hc, h, hi]

theorem slot_fallback_at_top_level (W : World) (f : Nat) (ctx : Ctx) (st : St) (attrs : List Attr) (kids : List Node) (hc : ctx.slots = [])
    (hi : ctx.inherited.lookup (if getAttr attrs (S "name") == [] then S "default" else getAttr attrs (S "name")) = none) :
    evalSlot W (f + 1) ctx st attrs kids = if !kids.isEmpty then evalList W f ctx st kids else .ok ([], st) := by
  simp only [evalSlot, hc, hi]

/-- (2b) a `<slot>` written in a LAYOUT itself (no instance scope), or in a component that was given nothing under the name, for which the
    PAGE handed content to the layout chain: that content is EVALUATED like any supplied content (fix: it used to be placed as parsed,
    mustaches and all) - plain content in the stack the layout sees, a slot template in a fresh scope holding the props this slot binds,
    popped afterwards - and inside it the page's slots are hidden (`slots := [], inherited := []`): a `<slot>` in the page's own content
    cannot reach that content again (no recursion), and the fallback is never evaluated -/
theorem slot_inherited_in_layout (W : World) (f : Nat) (ctx : Ctx) (st : St) (attrs : List Attr) (kids : List Node) (content : SlotContent) (hc : ctx.slots = [])
    (hi : ctx.inherited.lookup (if getAttr attrs (S "name") == [] then S "default" else getAttr attrs (S "name")) = some content)
    (ht : content.tmpl = none) :
    evalSlot W (f + 1) ctx st attrs kids = evalList W f { ctx with slots := [], inherited := [] } st content.nodes := by
  simp only [evalSlot, hc, hi, ht]

theorem slot_inherited_template_in_layout (W : World) (f : Nat) (ctx : Ctx) (st : St) (attrs : List Attr) (kids : List Node) (content : SlotContent) (tk : List Attr × List Node)
    (hc : ctx.slots = [])
    (hi : ctx.inherited.lookup (if getAttr attrs (S "name") == [] then S "default" else getAttr attrs (S "name")) = some content)
    (ht : content.tmpl = some tk) :
    evalSlot W (f + 1) ctx st attrs kids =
      bindR (evalList W f { ctx with slots := [], inherited := [] } { st with stack := slotScopeStack st.stack (scopedVarName tk.1) (slotProps W.P (st.stack.envMap W.P.cfg) attrs) } tk.2)
        (fun res st1 => .ok (res, { st1 with stack := st1.stack.pop })) := by
  simp only [evalSlot, hc, hi, ht]

/-- page-supplied content is treated exactly as content supplied on an include tag whose includer has no slots of its own -/
theorem inherited_is_supplied (W : World) (f : Nat) (ctx : Ctx) (st : St) (attrs : List Attr) (kids : List Node) (content : SlotContent) (chain : List Str)
    (name : Str) (hn : name = (if getAttr attrs (S "name") == [] then S "default" else getAttr attrs (S "name"))) :
    evalSlot W (f + 1) { slots := [], chain := chain, inherited := [(name, content)] } st attrs kids =
      evalSlot W (f + 1) { slots := [[(name, content)]], chain := chain, inherited := [] } st attrs kids := by
  subst hn
  simp [evalSlot, List.lookup]

/-- … and when content WAS supplied the fallback is never evaluated: plain children are evaluated in the includer-visible stack, a slot
    template in a fresh scope holding the slot's props, popped afterwards. The supplied content is the includer's: it is evaluated with the
    OUTER slot scopes, so a `<slot>` inside it cannot reach this instance's own content again (no self-recursion). -/
theorem slot_supplied_plain (W : World) (f : Nat) (ctx : Ctx) (st : St) (attrs : List Attr) (kids : List Node) (sc : SlotScope) (outer : List SlotScope) (content : SlotContent)
    (hc : ctx.slots = sc :: outer)
    (h : sc.lookup (if getAttr attrs (S "name") == [] then S "default" else getAttr attrs (S "name")) = some content)
    (ht : content.tmpl = none) :
    evalSlot W (f + 1) ctx st attrs kids = evalList W f { ctx with slots := outer } st content.nodes := by
  simp only [evalSlot, hc, h, ht]

theorem slot_supplied_template (W : World) (f : Nat) (ctx : Ctx) (st : St) (attrs : List Attr) (kids : List Node) (sc : SlotScope) (outer : List SlotScope) (content : SlotContent) (tk : List Attr × List Node)
    (hc : ctx.slots = sc :: outer)
    (h : sc.lookup (if getAttr attrs (S "name") == [] then S "default" else getAttr attrs (S "name")) = some content)
    (ht : content.tmpl = some tk) :
    evalSlot W (f + 1) ctx st attrs kids =
      bindR (evalList W f { ctx with slots := outer } { st with stack := slotScopeStack st.stack (scopedVarName tk.1) (slotProps W.P (st.stack.envMap W.P.cfg) attrs) } tk.2)
        (fun res st1 => .ok (res, { st1 with stack := st1.stack.pop })) := by
  simp only [evalSlot, hc, h, ht]

/-- the slot scopes available to supplied content are strictly fewer than those of the `<slot>` that renders it: a chain of slots rendering
    slots' content ends after at most `ctx.slots.length` steps (the pinned code evaluated supplied content with the instance's own scope:
    `<template include="c"><slot></slot></template>` recursed until the process died) -/
theorem supplied_content_sees_fewer_scopes (ctx : Ctx) (sc : SlotScope) (outer : List SlotScope) (hc : ctx.slots = sc :: outer) :
    ({ ctx with slots := outer } : Ctx).slots.length < ctx.slots.length := by
  simp [hc]

/-- (3) slot props: under the declared name the template sees ONE variable holding all props … -/
theorem slot_props_named (s : Stack) (name : Str) (props : Scope) (hn : name ≠ []) (hd : destructuredNames name = none) :
    slotScopeStack s name props = { scopes := s.scopes ++ [[(name, .map .anyMap props)]], root := s.root } := by
  have : (name != []) = true := by simpa using hn
  simp [slotScopeStack, hd, this, Stack.push, Stack.set, Stack.setTop_concat, Scope.set]

/-- … with a destructuring pattern each listed prop is bound by its own name (unlisted props are not bound) … -/
theorem slot_props_destructured_one (cfg : ReflectCfg) (s : Stack) (pattern pn : Str) (props : Scope) (v : Val)
    (hd : destructuredNames pattern = some [pn]) (hp : Scope.get props pn = some v) :
    Stack.lookup cfg (slotScopeStack s pattern props) pn = .ok (some v) := by
  simp only [slotScopeStack, hd, List.foldl_cons, List.foldl_nil, hp]
  have e : (s.push []).set pn v = { scopes := s.scopes ++ [[(pn, v)]], root := s.root } := by
    simp [Stack.push, Stack.set, Stack.setTop_concat, Scope.set]
  rw [e]
  simp [Stack.lookup, Stack.lookupScopes, Scope.get, List.lookup]

/-- … and the pattern `{ a, b }` is parsed into its names -/
example : destructuredNames (S "{ item, index }") = some [S "item", S "index"] := by decide

/-- (4) the slot leaves the variable stack as it found it (depth, lower scopes, root) for every content and fuel: its props scope never leaks -/
theorem slot_stack_restored (W : World) (f : Nat) (ctx : Ctx) (st st' : St) (attrs : List Attr) (kids out : List Node)
    (hs : st.stack.scopes ≠ []) (h : evalSlot W f ctx st attrs kids = .ok (out, st')) : Frame st st' :=
  (frameAt W f).slot ctx st attrs kids out st' hs h

/-- (5) which content a name gets: children that are not `<template v-slot…>` go to the unnamed slot … -/
theorem default_slot_collects_plain_children (kids : List Node)
    (h : ∀ k ∈ kids, match k with | .elem tag attrs _ => ¬ (tag = S "template" ∧ hasVSlot attrs = true) | .text d => blankText d = false | _ => False)
    (hne : kids ≠ []) :
    extractSlotContent kids = [(S "default", { nodes := kids, tmpl := none })] := by
  have key : ∀ (ks acc : List Node), (∀ k ∈ ks, match k with | .elem tag attrs _ => ¬ (tag = S "template" ∧ hasVSlot attrs = true) | .text d => blankText d = false | _ => False) →
      ks.foldl slotStep (([] : SlotScope), acc) = ([], acc ++ ks) := by
    intro ks
    induction ks with
    | nil => intro acc _; simp
    | cons k r ih =>
      intro acc hall
      have hk := hall k (by simp)
      have hr := fun x hx => hall x (List.mem_cons_of_mem _ hx)
      cases k with
      | text d =>
        simp only [] at hk
        simp only [List.foldl_cons, slotStep, hk, Bool.not_false, ↓reduceIte]
        rw [ih _ hr]; simp
      | elem tag attrs ks' =>
        simp only [] at hk
        have : (tag == S "template" && hasVSlot attrs) = false := by
          cases h1 : (tag == S "template") <;> cases h2 : hasVSlot attrs <;> simp_all
        simp only [List.foldl_cons, slotStep, this, Bool.false_eq_true, ↓reduceIte]
        rw [ih _ hr]; simp
      | comment d => exact absurd hk (by simp)
      | doctype d => exact absurd hk (by simp)
  unfold extractSlotContent
  rw [key kids [] h]
  have : kids.isEmpty = false := by cases kids <;> simp_all
  simp [this, setSlot]

/-- … and a `<template v-slot:name>` / `<template #name>` child supplies the slot of that name -/
example : (extractSlotContent [.elem (S "template") [(S "v-slot:head", [])] [.text (S "H")], .elem (S "b") [] []]).map (·.1) = [S "head", S "default"] := by decide
example : slotNameOf [(S "#row", S "p")] = S "row" ∧ slotNameOf [(S "v-slot", [])] = S "default" := by decide

/-- a `<slot>` that is a member of a `v-if` chain is still a slot: once its chain has selected it, it renders exactly what `evalSlot`
    renders for it - the supplied content, or the fallback when nothing was supplied - and never a literal `<slot>` element -/
theorem conditional_slot_is_slot (W : World) (f : Nat) (ctx : Ctx) (st : St) (attrs : List Attr) (kids : List Node)
    (hfor : getAttr attrs (S "v-for") = []) :
    evalAsElement W (f + 1) ctx st (S "slot") attrs kids = evalSlot W f ctx st attrs kids := by
  simp [evalAsElement, hfor]

/-- ... and a `<slot v-if="c">` whose condition is false, with no `v-else-if` / `v-else` sibling after it, renders nothing at all:
    neither the supplied content nor the fallback (the chain test comes before the slot test in `evaluate`) -/
theorem slot_with_false_condition_renders_nothing (W : World) (f : Nat) (ctx : Ctx) (st : St) (attrs : List Attr) (kids : List Node) (c : Str)
    (honce : hasAttr attrs (S "v-once") = false) (hpre : hasAttr attrs (S "v-pre") = false) (hfor : hasAttr attrs (S "v-for") = false)
    (hif : hasAttr attrs (S "v-if") = true) (hc : getAttr attrs (S "v-if") = c) (hne : c ≠ [])
    (hfalse : evalCondition W.P st.stack c = .ok false) :
    evalList W (f + 2) ctx st [.elem (S "slot") attrs kids] = .ok ([], st) := by
  have hne2 : (c == []) = false := by simpa using hne
  simp [evalList, onceHereOf, honce, hpre, hfor, hif, hc, chainSelect, hne2, hfalse, chainScan, bindE]

/-- every bound attribute of a `<slot>` is a PROP of that use, whatever it is called: `:name="e"` is the prop `name` - it neither names the
    slot (the static `name` attribute does, `default` without one) … -/
theorem bound_name_does_not_name_the_slot (e : Str) (rest : List Attr) :
    getAttr ((S ":name", e) :: rest) (S "name") = getAttr rest (S "name") := by
  simp [getAttr, List.lookup, S]

/-- … nor is it left out of the props: the content receives it under the name `name` -/
theorem bound_name_is_a_prop (P : Params) (env : Scope) (e : Str) (v : Val) (hv : P.exprEval e env = .ok v) (hn : v ≠ .nil) :
    Scope.get (slotProps P env [(S ":name", e)]) (S "name") = some v := by
  have : slotProps P env [(S ":name", e)] = [(S "name", v)] := by
    simp only [slotProps, List.foldl, S]
    cases v <;> simp_all [Scope.set]
  rw [this]; simp [Scope.get, List.lookup]

/-- … so the unnamed slot with a `name` prop looks its content up under `default`, with the props bound (a use of `evalSlot`) -/
example (e : Str) :
    (if getAttr [(S ":name", e), (S ":email", S "u.e")] (S "name") == [] then S "default" else getAttr [(S ":name", e), (S ":email", S "u.e")] (S "name")) = S "default" := by
  simp [getAttr, List.lookup, S]

end Vuego.Props.C06
