/-
C13 — "arguments converted to the parameter types as documented ... a wrong argument count, an impossible conversion ... fails the render with
an error": the call machinery of registered functions (`Vuego.Call`, tied to `callFunc` by the `callconv` / `callarity` correspondence).
-/
import Vuego.Model.Call
namespace Vuego.Props.C13Call
open Go Vuego Vuego.Call

/-- the conversion of an argument never panics, hangs or runs out of fuel: whatever the value and the parameter type, the answer
    (inside the model) is a converted value or an ordinary error -/
theorem conversion_answers_or_fails (v : Val) (p : PType) (r : Res Val) (h : convertArg v p = some r) :
    (∃ w, r = .ok w) ∨ r = cannot := by
  unfold convertArg at h
  repeat' (first
    | (cases h <;> first | exact Or.inl ⟨_, rfl⟩ | exact Or.inr rfl)
    | split at h)

/-- a parameter declared `any` receives the argument as it is -/
theorem any_parameter_receives_the_value (v : Val) : convertArg v .any = some (.ok v) := by
  cases v <;> rfl

/-- an untyped nil becomes the zero value of the parameter type -/
theorem nil_becomes_zero_value (p : PType) : convertArg .nil p = some (.ok (zeroOf p)) := by
  cases p <;> rfl

/-- a NUMBER passed for a string parameter arrives as its decimal text - never as the character with that code (fix bfba6b5, and de64c79
    for uintptr): every integer kind, every value -/
theorem integer_for_string_parameter_is_printed (k : IntKind) (n : Int) : convertArg (.int k n) .str = some (.ok (.str (intToStr n))) := rfl

/-- ... and a boolean as `true` / `false` -/
theorem bool_for_string_parameter_is_printed (b : Bool) :
    convertArg (.bool b) .str = some (.ok (.str (if b then "true".toList else "false".toList))) := rfl

/-- an integer passed for an integer parameter of another width is Go's conversion: the result always lies in the range of the parameter's kind -/
theorem wrap_in_range (k : IntKind) (n : Int) : inRange k (wrap k n) := by
  have hpos : ∀ k, (0 : Int) < 2 ^ bits k := fun k => by cases k <;> decide
  have heven : ∀ k, (2 : Int) ^ bits k = 2 * (2 ^ bits k / 2) := fun k => by cases k <;> decide
  unfold inRange wrap
  have hp := hpos k
  have he := heven k
  generalize (2 : Int) ^ bits k = m at *
  by_cases hs : signed k = true
  · simp only [hs, ↓reduceIte]
    have h1 := Int.emod_nonneg (n + m / 2) (by omega : m ≠ 0)
    have h2 := Int.emod_lt_of_pos (n + m / 2) hp
    omega
  · simp only [hs, Bool.false_eq_true, ↓reduceIte]
    exact ⟨Int.emod_nonneg n (by omega), Int.emod_lt_of_pos n hp⟩

/-- ... and leaves a value that already fits untouched -/
theorem wrap_of_in_range (k : IntKind) (n : Int) (h : inRange k n) : wrap k n = n := by
  have hpos : ∀ k, (0 : Int) < 2 ^ bits k := fun k => by cases k <;> decide
  have heven : ∀ k, (2 : Int) ^ bits k = 2 * (2 ^ bits k / 2) := fun k => by cases k <;> decide
  unfold inRange at h
  unfold wrap
  have hp := hpos k
  have he := heven k
  generalize (2 : Int) ^ bits k = m at *
  by_cases hs : signed k = true
  · simp only [hs, ↓reduceIte] at h ⊢
    have : (n + m / 2) % m = n + m / 2 := Int.emod_eq_of_lt (by omega) (by omega)
    omega
  · simp only [hs, Bool.false_eq_true, ↓reduceIte] at h ⊢
    exact Int.emod_eq_of_lt h.1 h.2

theorem integer_for_integer_parameter (k k' : IntKind) (n : Int) :
    convertArg (.int k' n) (.int k) = some (.ok (.int k (wrap k n))) := rfl

/-- an integer that fits the parameter's kind arrives unchanged, whatever kind it had -/
theorem fitting_integer_unchanged (k k' : IntKind) (n : Int) (h : inRange k n) :
    convertArg (.int k' n) (.int k) = some (.ok (.int k n)) := by
  rw [integer_for_integer_parameter, wrap_of_in_range k n h]

/-- conversion is stable: what a parameter received converts to itself when passed on to a parameter of the same type -/
theorem integer_conversion_stable (k k' : IntKind) (n : Int) :
    convertArg (.int k (wrap k n)) (.int k) = convertArg (.int k' n) (.int k) := by
  rw [integer_for_integer_parameter, integer_for_integer_parameter, wrap_of_in_range k _ (wrap_in_range k n)]

/-- a string that is not a decimal number is an impossible conversion for every integer parameter -/
theorem non_numeric_string_is_error_signed (k : IntKind) (s : Str) (hk : signed k = true) (h : parseInt64 s = none) :
    convertArg (.str s) (.int k) = some cannot := by
  simp [convertArg, hk, h]

theorem non_numeric_string_is_error_unsigned (k : IntKind) (s : Str) (hk : signed k = false) (h : parseUint64 s = none) :
    convertArg (.str s) (.int k) = some cannot := by
  simp [convertArg, hk, h]

theorem digitsToNat_lt (d : Str) (hd : d.all isDigit = true) : digitsToNat d < 10 ^ d.length := by
  have hbound : ∀ (d : Str) (acc : Nat), d.all isDigit = true →
      d.foldl (fun n c => n * 10 + (c.toNat - '0'.toNat)) acc < (acc + 1) * 10 ^ d.length := by
    intro d
    induction d with
    | nil => intro acc _; simp
    | cons c r ih =>
      intro acc hall
      simp only [List.all_cons, Bool.and_eq_true] at hall
      obtain ⟨hc, hr⟩ := hall
      have hcd : c.toNat - '0'.toNat ≤ 9 := by
        simp only [isDigit, Bool.and_eq_true, decide_eq_true_eq] at hc
        have h2 : c.toNat ≤ '9'.toNat := hc.2
        have : '9'.toNat = 57 := by decide
        have : '0'.toNat = 48 := by decide
        omega
      have h := ih (acc * 10 + (c.toNat - '0'.toNat)) hr
      simp only [List.foldl_cons, List.length_cons]
      calc _ < (acc * 10 + (c.toNat - '0'.toNat) + 1) * 10 ^ r.length := h
        _ ≤ ((acc + 1) * 10) * 10 ^ r.length := Nat.mul_le_mul_right _ (by omega)
        _ = (acc + 1) * 10 ^ (r.length + 1) := by rw [Nat.pow_succ, Nat.mul_assoc, Nat.mul_comm 10]
  have := hbound d 0 hd
  unfold digitsToNat
  omega

/-- `strconv.ParseInt` / `Atoi` of a string of at most 18 decimal digits is the number the digits spell -/
theorem parseInt64_of_digits (d : Str) (hne : d ≠ []) (hd : d.all isDigit = true) (hlen : d.length ≤ 18) :
    parseInt64 d = some (digitsToNat d : Int) := by
  have hlt : digitsToNat d < 10 ^ 18 :=
    Nat.lt_of_lt_of_le (digitsToNat_lt d hd) (Nat.pow_le_pow_right (by decide) hlen)
  have hrange : (-((2 : Int) ^ 63) ≤ (digitsToNat d : Int) && decide ((digitsToNat d : Int) < (2 : Int) ^ 63)) = true := by
    have : (10 : Int) ^ 18 < 2 ^ 63 := by decide
    have h2 : ((digitsToNat d : Nat) : Int) < (10 : Int) ^ 18 := by exact_mod_cast hlt
    simp only [Bool.and_eq_true, decide_eq_true_eq]
    constructor <;> omega
  cases d with
  | nil => exact absurd rfl hne
  | cons c r =>
    have hc : isDigit c = true := by simp only [List.all_cons, Bool.and_eq_true] at hd; exact hd.1
    have h1 : c ≠ '-' := by intro hx; subst hx; revert hc; decide
    have h2 : c ≠ '+' := by intro hx; subst hx; revert hc; decide
    have hemp : (c :: r).isEmpty = false := rfl
    unfold parseInt64
    split
    · rename_i heq; cases heq; exact absurd rfl h1
    · rename_i heq; cases heq; exact absurd rfl h2
    · simp only [hemp, hd, Bool.not_true, Bool.or_self, Bool.false_eq_true, ↓reduceIte, hrange]

/-- a string of decimal digits (at most 18, so within int64) passed for an `int` parameter is the number it spells -/
theorem digits_for_int_parameter (d : Str) (hne : d ≠ []) (hd : d.all isDigit = true) (hlen : d.length ≤ 18) :
    convertArg (.str d) (.int .int) = some (.ok (.int .int (digitsToNat d))) := by
  have hlt : digitsToNat d < 10 ^ 18 :=
    Nat.lt_of_lt_of_le (digitsToNat_lt d hd) (Nat.pow_le_pow_right (by decide) hlen)
  have hw : wrap .int (digitsToNat d : Int) = (digitsToNat d : Int) := by
    apply wrap_of_in_range
    unfold inRange
    have : (10 : Int) ^ 18 < 2 ^ 64 / 2 := by decide
    have h2 : ((digitsToNat d : Nat) : Int) < (10 : Int) ^ 18 := by exact_mod_cast hlt
    simp only [signed, ↓reduceIte, bits]
    constructor <;> omega
  simp [convertArg, signed, parseInt64_of_digits d hne hd hlen, hw]

/-- THE ARGUMENT-COUNT RULE: a function that is not variadic is called exactly when the number of arguments equals the number of its
    parameters; otherwise the call is an error - the conversion is never reached -/
theorem arity_fixed (params nargs : Nat) : checkArity params false nargs = none ↔ nargs = params := by
  unfold checkArity
  by_cases h : nargs = params <;> simp [h]

/-- a variadic function accepts every count from the number of its fixed parameters on -/
theorem arity_variadic (params nargs : Nat) : checkArity params true nargs = none ↔ params - 1 ≤ nargs := by
  unfold checkArity
  by_cases h : nargs < params - 1
  · simp [h]; omega
  · simp [h]; omega

/-- the error of a wrong count says how many arguments were expected and how many were given -/
theorem arity_error_text (params nargs : Nat) (h : nargs ≠ params) :
    checkArity params false nargs = some ("function expects ".toList ++ natToStr params ++ " arguments, got ".toList ++ natToStr nargs) := by
  simp [checkArity, h]

/-- all arguments are converted, left to right, and the first impossible conversion is the call's result -/
theorem first_failure_fails_the_call (v : Val) (p : PType) (vs : List Val) (ps : List PType) (h : convertArg v p = some cannot) :
    convertArgs (v :: vs) (p :: ps) = some (.err "func" "cannot convert argument".toList) := by
  simp [convertArgs, h, cannot]

theorem all_converted (v w : Val) (p : PType) (vs ws : List Val) (ps : List PType)
    (h : convertArg v p = some (.ok w)) (hr : convertArgs vs ps = some (.ok ws)) :
    convertArgs (v :: vs) (p :: ps) = some (.ok (w :: ws)) := by
  simp [convertArgs, h, hr]

theorem convertArgs_any (vs : List Val) : convertArgs vs (List.replicate vs.length .any) = some (.ok vs) := by
  induction vs with
  | nil => rfl
  | cons v r ih => simp [List.replicate_succ, convertArgs, any_parameter_receives_the_value, ih]

/-- A VARIADIC `...any` PARAMETER RECEIVES EVERY ARGUMENT AS ONE ELEMENT - a list too: `xs | f` is `f(xs)` with ONE argument, never
    `f(xs...)`; the number of elements the function sees is the number of arguments of the call -/
theorem variadic_any_receives_each_argument (vs : List Val) : convertVariadic vs [] .any = some (.ok vs) := by
  simp [convertVariadic, convertArgs_any]

theorem variadic_any_after_fixed_any (v : Val) (vs : List Val) : convertVariadic (v :: vs) [.any] .any = some (.ok (v :: vs)) := by
  have h := convertArgs_any (v :: vs)
  simp only [List.length_cons, List.replicate_succ] at h
  simp [convertVariadic, h]

/-! non-vacuity: concrete conversions, decided by evaluation -/
/-- the digits are DECIMAL digits, leading zeros included: `"010"` is ten (not eight), `"08"` is eight (not an error) - and a spelling that
    is not a string of decimal digits with an optional sign (a base prefix, an underscore) is not a number at all -/
theorem zero_padded_digits_are_decimal :
    convertArg (.str "010".toList) (.int .int) = some (.ok (.int .int 10)) ∧ convertArg (.str "08".toList) (.int .int) = some (.ok (.int .int 8)) ∧
    convertArg (.str "007".toList) (.int .int) = some (.ok (.int .int 7)) := by
  have h1 := digits_for_int_parameter "010".toList (by decide) (by decide) (by decide)
  have e1 : digitsToNat "010".toList = 10 := by decide
  have h2 := digits_for_int_parameter "08".toList (by decide) (by decide) (by decide)
  have e2 : digitsToNat "08".toList = 8 := by decide
  have h3 := digits_for_int_parameter "007".toList (by decide) (by decide) (by decide)
  have e3 : digitsToNat "007".toList = 7 := by decide
  rw [e1] at h1; rw [e2] at h2; rw [e3] at h3
  exact ⟨h1, h2, h3⟩

example : convertArg (.str "0x10".toList) (.int .int) = some cannot ∧ convertArg (.str "1_000".toList) (.int .int) = some cannot
    ∧ convertArg (.str "0b11".toList) (.int .int) = some cannot := by refine ⟨rfl, rfl, rfl⟩

example : convertArg (.str "42".toList) (.int .int) = some (.ok (.int .int 42)) := by
  have h := digits_for_int_parameter "42".toList (by decide) (by decide) (by decide)
  have e : digitsToNat "42".toList = 42 := by decide
  rw [e] at h; exact h
example : convertArg (.int .int 300) (.int .uint8) = some (.ok (.int .uint8 44)) := by rfl
example : convertArg (.int .int (-129)) (.int .int8) = some (.ok (.int .int8 127)) := by rfl
example : convertArg (.str "abc".toList) (.int .int) = some cannot := by rfl
example : convertArg (.str "-1".toList) (.int .uint) = some cannot := by rfl
example : convertArg (.int .uintptr 3) .str = some (.ok (.str "3".toList)) := by rfl
example : convertArg (.str "T".toList) .bool = some (.ok (.bool true)) := by rfl
example : convertArg (.int .int 2147483648) (.float .float64) = some (.ok (.float .float64 false "2.147483648e+09".toList)) := by rfl
example : convertArg (.int .int 1000000) (.float .float64) = some (.ok (.float .float64 false "1e+06".toList)) := by rfl
example : checkArity 2 false 1 = some "function expects 2 arguments, got 1".toList := by decide
example : checkArity 2 true 0 = some "function expects at least 1 arguments, got 0".toList := by decide

end Vuego.Props.C13Call
