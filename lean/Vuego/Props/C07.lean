/-
C07 — layout chains nest innermost-first, apply the default only when due, and end.
Model: Vuego/Model/Layout.lean; the engine is an arbitrary `renderLink`, the file set an arbitrary `layoutOf`/`fileExists`.
-/
import Vuego.Model.Layout
namespace Vuego.Props.C07
open Go Vuego Vuego.Layout

variable {α : Type}

/-- the chain of files the page leads to: each file, then the layout it names (resolved relative to it), the default base only after a FIRST
    file that names none; it ends at a non-first file that names none -/
inductive Chain (W : LWorld α) : Str → Bool → List Str → Prop where
  | last (f : Str) (h : W.layoutOf f = []) : Chain W f false [f]
  | base (f : Str) (rest : List Str) (h : W.layoutOf f = []) (hr : Chain W sBase false rest) : Chain W f true (f :: rest)
  | named (f : Str) (first : Bool) (rest : List Str) (h : W.layoutOf f ≠ [])
      (hr : Chain W (resolveLayoutPath W (W.layoutOf f) f) false rest) : Chain W f first (f :: rest)

/-- render the files of a chain innermost-first, threading the previous result as `content`; the first error ends it -/
def foldRender (W : LWorld α) : List Str → Option α → Res α
  | [], none => .err "empty" []
  | [], some c => .ok c
  | f :: rest, c => match W.renderLink f c with | .ok html => foldRender W rest (some html) | e => e

/-- (1) NESTING: if the chain from the page ends within the limit, the loop's result is the page rendered first, then each layout of the chain
    with the previous result as `content` — only the outermost result is returned -/
theorem layout_acyclic_nesting (W : LWorld α) (f : Str) (first : Bool) (files : List Str) (hc : Chain W f first files) :
    ∀ (fuel : Nat) (c : Option α), files.length ≤ fuel → layoutLoop W fuel f first c = foldRender W files c := by
  induction hc with
  | last f h =>
    intro fuel c hl
    cases fuel with
    | zero => simp at hl
    | succ n =>
      simp only [layoutLoop, foldRender]
      cases W.renderLink f c with
      | ok html => simp [h]
      | err a b => rfl
      | panic a => rfl
      | hang a => rfl
      | fuel => rfl
  | base f rest h hr ih =>
    intro fuel c hl
    cases fuel with
    | zero => simp at hl
    | succ n =>
      simp only [layoutLoop, foldRender]
      cases W.renderLink f c with
      | ok html =>
        simp only [h, beq_self_eq_true, ↓reduceIte]
        exact ih n (some html) (by simp at hl; omega)
      | err a b => rfl
      | panic a => rfl
      | hang a => rfl
      | fuel => rfl
  | named f first rest h hr ih =>
    intro fuel c hl
    cases fuel with
    | zero => simp at hl
    | succ n =>
      simp only [layoutLoop, foldRender]
      cases W.renderLink f c with
      | ok html =>
        have : (W.layoutOf f == []) = false := by simpa using h
        simp only [this, Bool.false_eq_true, ↓reduceIte]
        exact ih n (some html) (by simp at hl; omega)
      | err a b => rfl
      | panic a => rfl
      | hang a => rfl
      | fuel => rfl

/-- (2) IT ENDS: whenever the loop returns a document at all, a finite chain of at most `fuel` files exists from the page — so a chain that
    does not end (a cycle of any length, a self-reference) or is longer than the limit can only yield an error, never output or non-termination -/
theorem ok_implies_finite_chain (W : LWorld α) :
    ∀ (fuel : Nat) (f : Str) (first : Bool) (c : Option α) (out : α), layoutLoop W fuel f first c = .ok out →
      ∃ files, Chain W f first files ∧ files.length ≤ fuel := by
  intro fuel
  induction fuel with
  | zero => intro f first c out h; simp [layoutLoop] at h
  | succ n ih =>
    intro f first c out h
    simp only [layoutLoop] at h
    cases hr : W.renderLink f c with
    | ok html =>
      simp only [hr] at h
      by_cases hl : W.layoutOf f = []
      · simp only [hl, beq_self_eq_true, ↓reduceIte] at h
        cases first with
        | true =>
          simp only [↓reduceIte] at h
          obtain ⟨files, hc, hlen⟩ := ih _ _ _ _ h
          exact ⟨f :: files, Chain.base f files hl hc, by simp; omega⟩
        | false => exact ⟨[f], Chain.last f hl, by simp⟩
      · have : (W.layoutOf f == []) = false := by simpa using hl
        simp only [this, Bool.false_eq_true, ↓reduceIte] at h
        obtain ⟨files, hc, hlen⟩ := ih _ _ _ _ h
        exact ⟨f :: files, Chain.named f first files hl hc, by simp; omega⟩
    | err a b => simp [hr] at h
    | panic a => simp [hr] at h
    | hang a => simp [hr] at h
    | fuel => simp [hr] at h

/-- chains are unique: the walk from a file is deterministic -/
theorem chain_unique (W : LWorld α) (f : Str) (first : Bool) (a b : List Str) (ha : Chain W f first a) (hb : Chain W f first b) : a = b := by
  induction ha generalizing b with
  | last f h =>
    cases hb with
    | last _ _ => rfl
    | named _ _ rest h' _ => exact absurd h h'
  | base f rest h hr ih =>
    cases hb with
    | base _ rest' _ hr' => rw [ih rest' hr']
    | named _ _ rest' h' _ => exact absurd h h'
  | named f first rest h hr ih =>
    cases hb with
    | last _ h' => exact absurd h' h
    | base _ rest' h' _ => exact absurd h' h
    | named _ _ rest' _ hr' => rw [ih rest' hr']

/-- (2') a layout that names itself has no finite chain: rendering it can only fail -/
theorem self_reference_is_error (W : LWorld α) (f : Str) (hl : W.layoutOf f ≠ []) (hself : resolveLayoutPath W (W.layoutOf f) f = f)
    (fuel : Nat) (first : Bool) (c : Option α) (out : α) : layoutLoop W fuel f first c ≠ .ok out := by
  intro h
  obtain ⟨files, hc, _⟩ := ok_implies_finite_chain W fuel f first c out h
  have key : ∀ (fs : List Str) (b : Bool), Chain W f b fs → False := by
    intro fs
    induction fs with
    | nil => intro b hcc; cases hcc
    | cons x r ih =>
      intro b hcc
      cases hcc with
      | last _ h' => exact hl h'
      | base _ _ h' _ => exact hl h'
      | named _ _ _ _ hr => rw [hself] at hr; exact ih false hr
  exact key files first hc

/-- (2'') a cycle of any length: if following the layout names from `f` comes back to `f` after p ≥ 1 steps, rendering can only fail -/
def nextFile (W : LWorld α) (f : Str) : Str := resolveLayoutPath W (W.layoutOf f) f

def iter (W : LWorld α) : Nat → Str → Str
  | 0, f => f
  | p + 1, f => iter W p (nextFile W f)

theorem cycle_is_error (W : LWorld α) (f : Str) (p : Nat) (hp : 0 < p) (hcyc : iter W p f = f)
    (hnamed : ∀ q, q < p → W.layoutOf (iter W q f) ≠ [])
    (fuel : Nat) (c : Option α) (out : α) : layoutLoop W fuel f false c ≠ .ok out := by
  intro h
  obtain ⟨files, hc, _⟩ := ok_implies_finite_chain W fuel f false c out h
  -- following the chain p steps from f leads to a chain from (iter p f) that is p shorter
  have walk : ∀ (q : Nat) (g : Str) (fs : List Str) (b : Bool), (∀ r, r < q → W.layoutOf (iter W r g) ≠ []) → Chain W g b fs →
      ∃ fs', Chain W (iter W q g) (if q = 0 then b else false) fs' ∧ fs'.length + q = fs.length := by
    intro q
    induction q with
    | zero => intro g fs b _ hcc; exact ⟨fs, by simp only [iter, ↓reduceIte]; exact hcc, by simp⟩
    | succ q ih =>
      intro g fs b hn hcc
      have h0 := hn 0 (by omega)
      simp only [iter] at h0
      cases hcc with
      | last _ h' => exact absurd h' h0
      | base _ _ h' _ => exact absurd h' h0
      | named _ _ rest _ hr =>
        obtain ⟨fs', hc', hlen⟩ := ih (nextFile W g) rest false (fun r hr' => by have := hn (r + 1) (by omega); simpa [iter] using this) hr
        refine ⟨fs', ?_, by simp; omega⟩
        have : (if q = 0 then false else false) = false := by split <;> rfl
        simp only [iter, Nat.add_one_ne_zero, ↓reduceIte]
        rw [this] at hc'
        exact hc'
  obtain ⟨fs', hc', hlen⟩ := walk p f files false hnamed hc
  have hpz : (if p = 0 then false else false) = false := by split <;> rfl
  rw [hpz, hcyc] at hc'
  have := chain_unique W f false fs' files hc' hc
  rw [this] at hlen
  omega

/-- (3) THE LIMIT: a chain of more files than the limit yields an error (corollary of (2) and uniqueness) -/
theorem layout_limit (W : LWorld α) (f : Str) (first : Bool) (files : List Str) (hc : Chain W f first files) (fuel : Nat) (hlong : fuel < files.length)
    (c : Option α) (out : α) : layoutLoop W fuel f first c ≠ .ok out := by
  intro h
  obtain ⟨files', hc', hlen⟩ := ok_implies_finite_chain W fuel f first c out h
  rw [chain_unique W f first files' files hc' hc] at hlen
  omega

/-- the documented maximum, as the source has it -/
theorem source_limit : Generated.layoutFuel = 100 := by decide

/-- (4) THE DEFAULT, only when due: a page that names no layout is rendered alone when layouts/base.vuego does not exist … -/
theorem no_layout_no_base (W : LWorld α) (page : Str) (h1 : W.layoutOf page = []) (h2 : W.fileExists sBase = false) :
    renderEntry W page = W.renderLink page none := by
  simp [renderEntry, h1, h2]

/-- … gets layouts/base.vuego applied when that file exists … -/
theorem default_base_applied (W : LWorld α) (page : Str) (h1 : W.layoutOf page = []) (h2 : W.fileExists sBase = true) (hb : W.layoutOf sBase = []) :
    renderEntry W page = foldRender W [page, sBase] none := by
  have hc : Chain W page true [page, sBase] := Chain.base page [sBase] h1 (Chain.last sBase hb)
  simp only [renderEntry, h1, h2, Bool.or_true, ↓reduceIte]
  exact layout_acyclic_nesting W page true _ hc _ none (by rw [source_limit]; simp)

/-- … and a page that names a layout never gets the default base on top (the chain ends at the first layout that names none) -/
theorem named_layout_no_default (W : LWorld α) (page l : Str) (h1 : W.layoutOf page ≠ []) (hl : resolveLayoutPath W (W.layoutOf page) page = l)
    (h2 : W.layoutOf l = []) :
    renderEntry W page = foldRender W [page, l] none := by
  have hc : Chain W page true [page, l] := Chain.named page true [l] h1 (by rw [hl]; exact Chain.last l h2)
  have : (W.layoutOf page != []) = true := by simpa using h1
  simp only [renderEntry, this, Bool.true_or, ↓reduceIte]
  exact layout_acyclic_nesting W page true _ hc _ none (by rw [source_limit]; simp)

/-- (5) RESOLUTION ORDER: relative to the current file before layouts/ -/
theorem resolution_relative_first (W : LWorld α) (layout cur : Str) (h : W.fileExists (joinPath (dirOf cur) (layout ++ sExt)) = true)
    (hne : ¬ (hasSuffix layout sExt = true ∧ W.fileExists (joinPath (dirOf cur) layout) = true)) :
    resolveLayoutPath W layout cur = joinPath (dirOf cur) (layout ++ sExt) := by
  have : (hasSuffix layout sExt && W.fileExists (joinPath (dirOf cur) layout)) = false := by
    cases h1 : hasSuffix layout sExt <;> cases h2 : W.fileExists (joinPath (dirOf cur) layout) <;> simp_all
  simp [resolveLayoutPath, this, h]

theorem resolution_falls_back_to_layouts_dir (W : LWorld α) (layout cur : Str)
    (h1 : W.fileExists (joinPath (dirOf cur) (layout ++ sExt)) = false) (h2 : W.fileExists (joinPath (dirOf cur) layout) = false) :
    resolveLayoutPath W layout cur = "layouts/".toList ++ layout ++ sExt := by
  simp [resolveLayoutPath, h1, h2]

/-! non-vacuity: a three-file chain and a two-cycle in a concrete world (the engine wraps the content in the file's name) -/
section
def demo : LWorld (List Str) :=
  { layoutOf := fun f => if f == "p".toList then "a".toList else if f == "layouts/a.vuego".toList then "b".toList
                         else if f == "x".toList then "y".toList else if f == "layouts/y.vuego".toList then "y".toList else [],
    fileExists := fun _ => false,
    renderLink := fun f c => .ok (f :: c.getD []) }
example : layoutLoop demo 100 "p".toList true none = .ok ["layouts/b.vuego".toList, "layouts/a.vuego".toList, "p".toList] := by rfl
example : ∃ cls msg, layoutLoop demo 5 "x".toList true none = .err cls msg := ⟨_, _, rfl⟩
end

end Vuego.Props.C07
