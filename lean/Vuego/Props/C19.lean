/-
C19 — formatting preserves what the template means (attribute values, text, front-matter) — the parts a theorem can carry.
Model: Vuego/Model/Fmt.lean. PARTIAL: the HTML5 tree builder and the formatter's layout rules are not modelled, so idempotence of the whole
`Format` and preservation of the element structure are decided by the oracle stream only; what is proved, for EVERY value / text / line list:
an attribute value written by renderOpenTag is read back by the HTML attribute-value states as exactly the (whitespace-normalised) value,
whatever quotes, ampersands, references or operators it contains; escaped text reads back as itself and introduces no markup; a mustache is
copied verbatim; the front-matter block is split off byte for byte and found again unchanged on re-formatting.
-/
import Vuego.Model.Fmt
namespace Vuego.Props.C19
open Go Vuego.Fmt

/-! ### attribute values -/

theorem isRefStart_amp : isRefStart '&' = false := by decide

/-- what is written after a character that cannot start a reference cannot start one either -/
theorem startsRef_escFull (q : Bool) : ∀ (r : Str), startsRef r = false → startsRef (escFull q r) = false
  | [], _ => rfl
  | d :: r', h => by
    have h : isRefStart d = false := h
    show startsRef (escPiece q d r' ++ escFull q r') = false
    have key : ∃ c' t, escPiece q d r' = c' :: t ∧ isRefStart c' = false := by
      unfold escPiece
      by_cases hd : d = '&'
      · subst hd
        by_cases hs : startsRef r' = true
        · rw [if_pos (by rfl), if_pos hs]; exact ⟨'&', _, rfl, isRefStart_amp⟩
        · rw [if_pos (by rfl), if_neg hs]; exact ⟨'&', _, rfl, isRefStart_amp⟩
      · have hd' : ¬ ((d == '&') = true) := by simpa using hd
        rw [if_neg hd']
        by_cases hq : (d == '"' && q) = true
        · rw [if_pos hq]; exact ⟨'&', _, rfl, isRefStart_amp⟩
        · rw [if_neg hq]; exact ⟨d, [], rfl, h⟩
    obtain ⟨c', t, e, hc⟩ := key
    rw [e]
    exact hc

theorem decode_nil (entity : Str → Option (Str × Nat)) (f : Nat) : decode entity f [] = [] := by
  cases f <;> simp [decode]

theorem decode_plain (entity : Str → Option (Str × Nat)) (f : Nat) (c : Char) (t : Str) (hc : c ≠ '&') :
    decode entity (f + 1) (c :: t) = c :: decode entity f t := by
  have : (c == '&') = false := by simpa using hc
  simp [decode, this]

theorem decode_bare_amp (entity : Str → Option (Str × Nat)) (f : Nat) (t : Str) (hc : startsRef t = false) :
    decode entity (f + 1) ('&' :: t) = '&' :: decode entity f t := by
  simp [decode, hc]

/-- MAIN LEMMA: decoding what escapeAttrAmp (+ the &quot; replacement) wrote gives back the value — for every value, with any reference
    table that knows `&amp;` and `&quot;` -/
theorem decode_escFull (entity : Str → Option (Str × Nat)) (he : EntityOK entity) (q : Bool) :
    ∀ (v : Str) (f : Nat), (escFull q v).length ≤ f → decode entity f (escFull q v) = v
  | [], f, _ => by simp [escFull, decode_nil]
  | c :: r, f, hf => by
    have ih := decode_escFull entity he q r
    simp only [escFull, escPiece, List.length_append] at hf ⊢
    by_cases hc : c = '&'
    · subst hc
      simp only [beq_self_eq_true, ↓reduceIte] at hf ⊢
      by_cases hs : startsRef r = true
      · simp only [hs, ↓reduceIte, amp, List.cons_append, List.nil_append, List.length_cons, List.length_nil] at hf ⊢
        cases f with
        | zero => omega
        | succ f =>
          have h1 : startsRef ('a' :: 'm' :: 'p' :: ';' :: escFull q r) = true := by show isRefStart 'a' = true; decide
          simp only [decode, beq_self_eq_true, h1, Bool.and_self, ↓reduceIte, he.amp, List.drop_succ_cons, List.drop_zero, List.cons_append, List.nil_append]
          rw [ih f (by omega)]
      · have hs' : startsRef r = false := by simpa using hs
        simp only [hs', Bool.false_eq_true, ↓reduceIte, List.cons_append, List.nil_append, List.length_cons, List.length_nil] at hf ⊢
        cases f with
        | zero => omega
        | succ f => rw [decode_bare_amp entity f _ (startsRef_escFull q r hs'), ih f (by omega)]
    · have hc' : (c == '&') = false := by simpa using hc
      simp only [hc', Bool.false_eq_true, ↓reduceIte] at hf ⊢
      by_cases hq : (c == '"' && q) = true
      · simp only [hq, ↓reduceIte, quot, List.cons_append, List.nil_append, List.length_cons, List.length_nil] at hf ⊢
        have hcq : c = '"' := by simp at hq; exact hq.1
        cases f with
        | zero => omega
        | succ f =>
          have h1 : startsRef ('q' :: 'u' :: 'o' :: 't' :: ';' :: escFull q r) = true := by show isRefStart 'q' = true; decide
          simp only [decode, beq_self_eq_true, h1, Bool.and_self, ↓reduceIte, he.quot, List.drop_succ_cons, List.drop_zero, List.cons_append, List.nil_append]
          rw [ih f (by omega), hcq]
      · simp only [hq, Bool.false_eq_true, ↓reduceIte, List.cons_append, List.nil_append, List.length_cons, List.length_nil] at hf ⊢
        cases f with
        | zero => omega
        | succ f => rw [decode_plain entity f c _ hc, ih f (by omega)]

/-- with the `&quot;` replacement no double quote is left in the text -/
theorem escFull_true_no_dq : ∀ (v : Str), (escFull true v).contains '"' = false
  | [] => by simp [escFull]
  | c :: r => by
    have ih := escFull_true_no_dq r
    simp only [List.contains_eq_mem, decide_eq_false_iff_not] at ih
    simp only [escFull, escPiece, List.contains_eq_mem, List.mem_append, decide_eq_false_iff_not, not_or]
    refine ⟨?_, ih⟩
    by_cases hc : c = '&'
    · subst hc
      by_cases hs : startsRef r = true <;> simp [hs, amp]
    · have hc' : (c == '&') = false := by simpa using hc
      simp only [hc', Bool.false_eq_true, ↓reduceIte, Bool.and_true]
      by_cases hq : c = '"'
      · subst hq; simp [quot]
      · have : (c == '"') = false := by simpa using hq
        simp [this, eq_comm, hq]

theorem span_until_quote (q : Char) (text rest : Str) (h : text.contains q = false) :
    untilQuote q (text ++ q :: rest) = some (text, rest) := by
  induction text with
  | nil => simp [untilQuote]
  | cons c t ih =>
    simp only [List.contains_cons, Bool.or_eq_false_iff] at h
    have hc : (c == q) = false := by
      have := h.1
      simp only [beq_eq_false_iff_ne, ne_eq] at this ⊢
      exact fun e => this e.symm
    simp only [List.cons_append, untilQuote, hc, Bool.false_eq_true, ↓reduceIte, ih h.2, Option.map_some]

/-- (1) ATTRIBUTE VALUES ARE NOT ALTERED. For every attribute value `v0` — quotes of either or both kinds, ampersands, things that look like
    character references, comparison operators, anything — and whatever follows in the tag, what renderOpenTag writes is read back by the HTML
    attribute-value states as exactly `FormatAttr v0` (the value up to collapsing of white space), and reading stops exactly at the end of
    what was written. -/
theorem attr_value_reads_back (entity : Str → Option (Str × Nat)) (he : EntityOK entity) (v0 rest : Str) (hne : v0 ≠ []) :
    readAttrValue entity (writeAttrValue v0 ++ rest) = some (formatAttr v0, rest) := by
  have hb : (v0 == []) = false := by simpa using hne
  unfold writeAttrValue
  simp only [hb, Bool.false_eq_true, ↓reduceIte]
  generalize formatAttr v0 = v
  by_cases hd : (escFull false v).contains '"' = true
  · by_cases hs : (escFull false v).contains '\'' = true
    · simp only [hd, hs, Bool.and_self, ↓reduceIte, List.cons_append, List.append_assoc, List.nil_append]
      have hnq := escFull_true_no_dq v
      simp only [readAttrValue, beq_self_eq_true, Bool.true_or, ↓reduceIte, span_until_quote '"' _ rest hnq]
      rw [decode_escFull entity he true v _ (by omega)]
    · have hs' : (escFull false v).contains '\'' = false := by simpa using hs
      simp only [hd, hs', Bool.and_false, Bool.false_eq_true, ↓reduceIte, List.cons_append, List.append_assoc, List.nil_append]
      simp only [readAttrValue, beq_self_eq_true, Bool.or_true, ↓reduceIte, span_until_quote '\'' _ rest hs']
      rw [decode_escFull entity he false v _ (by omega)]
  · have hd' : (escFull false v).contains '"' = false := by simpa using hd
    simp only [hd', Bool.false_and, Bool.false_eq_true, ↓reduceIte, List.cons_append, List.append_assoc, List.nil_append]
    simp only [readAttrValue, beq_self_eq_true, Bool.true_or, ↓reduceIte, span_until_quote '"' _ rest hd']
    rw [decode_escFull entity he false v _ (by omega)]

/-- an empty value is written as a bare attribute name -/
theorem empty_value_written_bare : writeAttrValue [] = [] := rfl

theorem entity4_ok : EntityOK entity4 := ⟨fun _ => rfl, fun _ => rfl, fun _ => rfl, fun _ => rfl⟩

/-! the pinned writer (always double quotes, nothing escaped) loses the value: -/
example : readAttrValue entity4 ('=' :: '"' :: "a\"b".toList ++ ['"']) = some (['a'], "b\"".toList) := by decide
example : readAttrValue entity4 (writeAttrValue "a\"b".toList) = some ("a\"b".toList, []) := by decide
example : readAttrValue entity4 (writeAttrValue "x &amp; 'y' \"z\" a<b && c".toList) = some ("x &amp; 'y' \"z\" a<b && c".toList, []) := by decide

/-! ### white space inside values -/

theorem collapseAux_idem : ∀ (s : Str) (b : Bool), collapseAux b (collapseAux b s) = collapseAux b s
  | [], b => by simp [collapseAux]
  | c :: r, b => by
    by_cases hc : isReSpace c = true
    · cases b with
      | true =>
        simp only [collapseAux, hc, ↓reduceIte]
        exact collapseAux_idem r true
      | false =>
        have hsp : isReSpace ' ' = true := by decide
        simp only [collapseAux, hc, ↓reduceIte, Bool.false_eq_true, hsp]
        rw [collapseAux_idem r true]
    · have hc' : isReSpace c = false := by simpa using hc
      simp only [collapseAux, hc', Bool.false_eq_true, ↓reduceIte]
      rw [collapseAux_idem r false]

/-- collapsing white space runs is idempotent: a second formatting pass finds nothing left to collapse -/
theorem collapseWs_idem (s : Str) : collapseWs (collapseWs s) = collapseWs s := collapseAux_idem s false

/-! ### text -/

theorem escTextChar_head_unused (c : Char) : ∃ d t, escTextChar c = d :: t ∧ (d = '&' → c = '&' ∨ c = '<' ∨ c = '>') := by
  unfold escTextChar
  by_cases h1 : c = '&'
  · subst h1; exact ⟨'&', _, rfl, fun _ => Or.inl rfl⟩
  · by_cases h2 : c = '<'
    · subst h2; exact ⟨'&', _, rfl, fun _ => Or.inr (Or.inl rfl)⟩
    · by_cases h3 : c = '>'
      · subst h3; exact ⟨'&', _, rfl, fun _ => Or.inr (Or.inr rfl)⟩
      · refine ⟨c, [], by simp [h1, h2, h3], fun h => absurd h h1⟩

/-- (2) escaped text reads back as itself … -/
theorem decode_escapePlain (entity : Str → Option (Str × Nat)) (he : EntityOK entity) :
    ∀ (s : Str) (f : Nat), (escapePlain s).length ≤ f → decode entity f (escapePlain s) = s
  | [], f, _ => by simp [escapePlain, decode_nil]
  | c :: r, f, hf => by
    simp only [escapePlain, List.length_append] at hf ⊢
    have ih := decode_escapePlain entity he r
    by_cases h1 : c = '&'
    · subst h1
      simp only [escTextChar, beq_self_eq_true, ↓reduceIte, amp, List.cons_append, List.nil_append, List.length_cons, List.length_nil] at hf ⊢
      cases f with
      | zero => omega
      | succ f =>
        have ha : startsRef ('a' :: 'm' :: 'p' :: ';' :: escapePlain r) = true := by show isRefStart 'a' = true; decide
        simp only [decode, beq_self_eq_true, ha, Bool.and_self, ↓reduceIte, he.amp, List.drop_succ_cons, List.drop_zero, List.cons_append, List.nil_append]
        rw [ih f (by omega)]
    · by_cases h2 : c = '<'
      · subst h2
        have e : escTextChar '<' = ['&','l','t',';'] := by decide
        simp only [e, List.cons_append, List.nil_append, List.length_cons, List.length_nil] at hf ⊢
        cases f with
        | zero => omega
        | succ f =>
          have ha : startsRef ('l' :: 't' :: ';' :: escapePlain r) = true := by show isRefStart 'l' = true; decide
          simp only [decode, beq_self_eq_true, ha, Bool.and_self, ↓reduceIte, he.lt, List.drop_succ_cons, List.drop_zero, List.cons_append, List.nil_append]
          rw [ih f (by omega)]
      · by_cases h3 : c = '>'
        · subst h3
          have e : escTextChar '>' = ['&','g','t',';'] := by decide
          simp only [e, List.cons_append, List.nil_append, List.length_cons, List.length_nil] at hf ⊢
          cases f with
          | zero => omega
          | succ f =>
            have ha : startsRef ('g' :: 't' :: ';' :: escapePlain r) = true := by show isRefStart 'g' = true; decide
            simp only [decode, beq_self_eq_true, ha, Bool.and_self, ↓reduceIte, he.gt, List.drop_succ_cons, List.drop_zero, List.cons_append, List.nil_append]
            rw [ih f (by omega)]
        · have e : escTextChar c = [c] := by simp [escTextChar, h1, h2, h3]
          simp only [e, List.cons_append, List.nil_append, List.length_cons, List.length_nil] at hf ⊢
          cases f with
          | zero => omega
          | succ f => rw [decode_plain entity f c _ h1, ih f (by omega)]

/-- … and introduces no markup: no `<` and no `>` in what is written -/
theorem escapePlain_no_angle : ∀ (s : Str), '<' ∉ escapePlain s ∧ '>' ∉ escapePlain s
  | [] => by simp [escapePlain]
  | c :: r => by
    obtain ⟨i1, i2⟩ := escapePlain_no_angle r
    have hc : '<' ∉ escTextChar c ∧ '>' ∉ escTextChar c := by
      unfold escTextChar
      by_cases h1 : c = '&'
      · subst h1; decide
      · by_cases h2 : c = '<'
        · subst h2; decide
        · by_cases h3 : c = '>'
          · subst h3; decide
          · have e1 : (c == '&') = false := by simpa using h1
            have e2 : (c == '<') = false := by simpa using h2
            have e3 : (c == '>') = false := by simpa using h3
            simp only [e1, e2, e3, Bool.false_eq_true, ↓reduceIte, List.mem_singleton]
            exact ⟨fun e => h2 e.symm, fun e => h3 e.symm⟩
    simp only [escapePlain, List.mem_append, not_or]
    exact ⟨⟨hc.1, i1⟩, ⟨hc.2, i2⟩⟩

/-- (3) a mustache — everything from `{{` to the first `}}` — goes through `writeExpr`, escaping resumes after it -/
theorem mustache_written_as_expression (f : Nat) (r : Str) (e : Nat) (h : findClose r = some e) :
    escapeText (f + 1) ('{' :: '{' :: r) = writeExpr ('{' :: '{' :: r.take (e + 2)) ++ escapeText f (r.drop (e + 2)) := by
  simp [escapeText, hasPrefix, h]

/-- an expression whose `<` are not followed by a tag-opening character and whose `&` are not followed by a reference-opening character —
    `{{ a < b }}`, `{{ a && b }}` — is copied verbatim -/
theorem plain_expression_verbatim : ∀ (e : Str), (∀ pre post, e = pre ++ '<' :: post → startsTag post = false) →
    (∀ pre post, e = pre ++ '&' :: post → startsRef post = false) → writeExpr e = e
  | [], _, _ => rfl
  | c :: r, h1, h2 => by
    have ih := plain_expression_verbatim r (fun pre post he => h1 (c :: pre) post (by rw [he]; rfl)) (fun pre post he => h2 (c :: pre) post (by rw [he]; rfl))
    simp only [writeExpr, exprPiece, ih]
    by_cases hl : c = '<'
    · subst hl
      have := h1 [] r rfl
      simp [this]
    · by_cases ha : c = '&'
      · subst ha
        have := h2 [] r rfl
        simp [this]
      · simp [hl, ha]

/-- outside mustaches escapeText escapes character by character -/
theorem escapeText_plain_char (f : Nat) (c : Char) (r : Str) (hc : c ≠ '{') :
    escapeText (f + 1) (c :: r) = escTextChar c ++ escapeText f r := by
  have : (c == '{') = false := by simpa using hc
  simp [escapeText, this]

/-! ### front-matter -/

theorem closeIdx_take_drop (rest : List Str) (i : Nat) (_h : closeIdx rest = some i) : rest.take (i + 1) ++ rest.drop (i + 1) = rest :=
  List.take_append_drop _ _

/-- (4) the split loses nothing: front-matter lines followed by body lines are the input lines, in every case -/
theorem splitFM_lossless (lines : List Str) : (splitFM lines).1 ++ (splitFM lines).2 = lines := by
  unfold splitFM
  cases lines with
  | nil => rfl
  | cons first rest =>
    by_cases hf : isFence first = true
    · simp only [hf, Bool.not_true, Bool.false_eq_true, ↓reduceIte]
      cases hc : closeIdx rest with
      | none => rfl
      | some i => simp [List.take_append_drop]
    · simp [hf]

theorem closeIdx_prefix : ∀ (rest : List Str) (i : Nat) (out : List Str), closeIdx rest = some i → closeIdx (rest.take (i + 1) ++ out) = some i
  | [], _, _, h => by simp [closeIdx] at h
  | l :: r, i, out, h => by
    simp only [closeIdx] at h
    by_cases hl : isFence l = true
    · simp only [hl, ↓reduceIte, Option.some.injEq] at h
      subst h
      simp [closeIdx, hl]
    · simp only [hl, Bool.false_eq_true, ↓reduceIte, Option.map_eq_some_iff] at h
      obtain ⟨j, hj, rfl⟩ := h
      simp only [List.take_succ_cons, List.cons_append, closeIdx, hl, Bool.false_eq_true, ↓reduceIte]
      rw [closeIdx_prefix r j out hj]
      rfl

/-- (5) re-formatting finds the same front-matter: whatever body lines `out` the formatter produced (including lines that start with `---`),
    splitting `front-matter ++ out` again returns exactly that front-matter and that body -/
theorem splitFM_stable (first : Str) (rest : List Str) (i : Nat) (out : List Str) (hf : isFence first = true) (hc : closeIdx rest = some i) :
    splitFM ((first :: rest.take (i + 1)) ++ out) = (first :: rest.take (i + 1), out) := by
  simp only [List.cons_append, splitFM, hf, Bool.not_true, Bool.false_eq_true, ↓reduceIte, closeIdx_prefix rest i out hc]
  have hlen : (rest.take (i + 1)).length = i + 1 := by
    have : i < rest.length := by
      clear hf
      induction rest generalizing i with
      | nil => simp [closeIdx] at hc
      | cons l r ih =>
        simp only [closeIdx] at hc
        by_cases hl : isFence l = true
        · simp only [hl, ↓reduceIte, Option.some.injEq] at hc; subst hc; simp
        · simp only [hl, Bool.false_eq_true, ↓reduceIte, Option.map_eq_some_iff] at hc
          obtain ⟨j, hj, rfl⟩ := hc
          have := ih j hj
          simp; omega
    simp [List.length_take]; omega
  congr 1
  · congr 1
    rw [List.take_append_of_le_length (by omega)]
    rw [List.take_of_length_le (by omega)]
  · rw [List.drop_append_of_le_length (by omega), List.drop_of_length_le (by omega)]
    rfl

example : splitFM ["---".toList, "a: 1".toList, "---".toList, "<p>".toList, "---".toList] = (["---".toList, "a: 1".toList, "---".toList], ["<p>".toList, "---".toList]) := by decide

end Vuego.Props.C19
