/-
C11 — every render call returns: no panic, no unbounded recursion.
What the model carries: (i) include recursion is cut by an enforced limit read from the source; (ii) the path resolver cannot panic
(Props/C17); (iii) the evaluator keeps the variable stack bounded (frameAt): depth is restored by every construct.
Not carried by a theorem: panics inside the external libraries on arbitrary bytes, and "no crash outcome of the whole evaluator model"
(that would need the same induction as frameAt over every helper) — both are decided by the isolated-process oracle sweep (partial).
-/
import Vuego.Props.C17
import Vuego.Lemmas.EvalInv
namespace Vuego.Props.C11
open Go Vuego

/-- the source enforces a limit on the inclusion chain (regenerated constant `maxIncludeDepth`) -/
theorem source_has_include_limit : Generated.includeMaxDepth = some 100 := by decide

/-- an include reached with a chain longer than the limit is an error, for every file set, state and fuel — it never recurses further -/
theorem include_beyond_limit_is_error (W : World) (f : Nat) (ctx : Ctx) (st : St) (attrs : List Attr) (kids : List Node) (vars : Scope)
    (h : ctx.chain.length > includeLimit) :
    evalInclude W (f + 1) ctx st attrs kids vars =
      .err "include-depth" (S "include depth exceeded maximum of " ++ natToStr includeLimit ++ S " (included from " ++ formatChain ctx ++ S "), possible circular include") := by
  simp only [evalInclude, h, ↓reduceIte]

/-- every include evaluates its component with a chain exactly one longer, so a chain of includes — a cycle in particular — reaches the
    limit after at most `limit + 1` nested includes -/
theorem include_extends_chain (ctx : Ctx) (name : Str) : (ctx.chain ++ [name]).length = ctx.chain.length + 1 := by simp

theorem limit_value : includeLimit = 100 := by simp [includeLimit, source_has_include_limit]

/-- the evaluator cannot grow the variable stack: after ANY construct (loops, includes, slots, templates) the depth is what it was -/
theorem stack_depth_bounded (W : World) (f : Nat) (ctx : Ctx) (st st' : St) (nodes out : List Node)
    (hs : st.stack.scopes ≠ []) (h : evalList W f ctx st nodes = .ok (out, st')) :
    st'.stack.scopes.length = st.stack.scopes.length :=
  ((frameAt W f).list ctx st nodes out st' hs h).1.1

/-- path resolution never panics on any value (unexported fields, non-string-keyed maps, nil pointers included) -/
theorem resolve_never_panics (cur : Val) (ps : List Str) (hps : ∀ p ∈ ps, p ≠ []) (site : String) :
    walkPath goodCfg cur ps ≠ .panic site := by
  rw [Vuego.Props.C17.walkPath_eq_goWalk cur ps hps]; intro h; cases h

end Vuego.Props.C11
