/-
C11 — every render call returns: no panic, no unbounded recursion.
What the model carries: (i) include recursion is cut by an enforced limit read from the source; (ii) the path resolver cannot panic
(Props/C17); (iii) the evaluator keeps the variable stack bounded (frameAt): depth is restored by every construct.
(iv) no evaluator function returns a crash outcome (SafeAt); (v) every evaluation TERMINATES (Lemmas/Terminates, TerminatesLeaf).
Not carried by a theorem: panics inside the external libraries on arbitrary bytes — decided by the isolated-process oracle sweep (partial).
-/
import Vuego.Props.C17
import Vuego.Lemmas.EvalInv
import Vuego.Lemmas.NoCrashEval
import Vuego.Lemmas.NoCrashExpr
import Vuego.Lemmas.FuelMono
import Vuego.Lemmas.TerminatesLeaf
import Vuego.Generated.Parse
namespace Vuego.Props.C11
open Go Vuego

/-- the source enforces a limit on the inclusion chain (regenerated constant `maxIncludeDepth`) -/
theorem source_has_include_limit : Generated.includeMaxDepth = some 100 := by decide

/-- an include reached with a chain longer than the limit is an error, for every file set, state and fuel — it never recurses further -/
theorem include_beyond_limit_is_error (W : World) (f : Nat) (ctx : Ctx) (st : St) (attrs : List Attr) (kids : List Node) (vars : Scope)
    (h : ctx.chain.length > includeLimit) :
    evalInclude W (f + 1) ctx st attrs kids vars =
      .err "include-depth" (S "include depth exceeded maximum of " ++ natToStr includeLimit ++ S " (included from " ++ formatChain ctx ++ S "), possible circular include") := by
  simp only [evalInclude, h, ↓reduceIte]

/-- every include evaluates its component with a chain exactly one longer, so a chain of includes — a cycle in particular — reaches the
    limit after at most `limit + 1` nested includes -/
theorem include_extends_chain (ctx : Ctx) (name : Str) : (ctx.chain ++ [name]).length = ctx.chain.length + 1 := by simp

theorem limit_value : includeLimit = 100 := by simp [includeLimit, source_has_include_limit]

/-- the evaluator cannot grow the variable stack: after ANY construct (loops, includes, slots, templates) the depth is what it was -/
theorem stack_depth_bounded (W : World) (f : Nat) (ctx : Ctx) (st st' : St) (nodes out : List Node)
    (hs : st.stack.scopes ≠ []) (h : evalList W f ctx st nodes = .ok (out, st')) :
    st'.stack.scopes.length = st.stack.scopes.length :=
  ((frameAt W f).list ctx st nodes out st' hs h).1.1

/-- path resolution never panics on any value (unexported fields, non-string-keyed maps, nil pointers included) -/
theorem resolve_never_panics (cur : Val) (ps : List Str) (hps : ∀ p ∈ ps, p ≠ []) (site : String) :
    walkPath goodCfg cur ps ≠ .panic site := by
  rw [Vuego.Props.C17.walkPath_eq_goWalk cur ps hps]; intro h; cases h

/-! ### no crash outcome of the whole evaluator model

`.panic` and `.hang` are the model's crash outcomes (a Go panic of the reflect-based resolver, a loop without exit). With the reflect
guards the SOURCE has (`Generated.reflectCfg`, re-read on every run) and any expression evaluator that itself returns normally, no
template, data stack, file set, slot content or fuel makes any evaluator function return one of them: every render of the model ends in
output, an ordinary error, or the model's own step bound. -/

/-- the configuration read from the source satisfies the guards the proof needs -/
theorem source_cfg_guards : GoodCfg Generated.reflectCfg := ⟨by decide, by decide⟩

theorem evaluator_never_crashes (W : World) (hcfg : W.P.cfg = Generated.reflectCfg) (hexpr : ∀ e env, Safe (W.P.exprEval e env))
    (fuel : Nat) (file : Str) (dom : List Node) (stack : Stack) (site : String) :
    evaluatePage W fuel file dom stack ≠ .panic site ∧ evaluatePage W fuel file dom stack ≠ .hang site := by
  have g : GoodParams W.P := ⟨hcfg ▸ source_cfg_guards, hexpr⟩
  have h := (safeAt_all W g fuel).list { slots := [], chain := [file] } { stack := stack, seen := [] } (resolveTagsList W.comps dom)
  unfold evaluatePage
  constructor <;> intro hc <;> rw [hc] at h <;> cases h

/-- for the instance the page correspondence runs every time — expressions evaluated by `ExprMini`, the reflect guards read from the
    source — there is no hypothesis left: no file set, template, data or fuel makes the evaluator model crash -/
theorem evaluator_never_crashes_with_exprMini (files : List (Str × (Scope × List Node))) (comps : List (Str × Str)) (jd : Str → Option Val)
    (fuel : Nat) (file : Str) (dom : List Node) (stack : Stack) (site : String) :
    let W : World := { P := { exprEval := ExprMini.exprEval, cfg := Generated.reflectCfg }, files := files, comps := comps, jsonDecode := jd }
    evaluatePage W fuel file dom stack ≠ .panic site ∧ evaluatePage W fuel file dom stack ≠ .hang site :=
  evaluator_never_crashes _ rfl (fun e env => safe_exprMini e env) fuel file dom stack site

/-- THE ANSWER DOES NOT DEPEND ON THE STEP BOUND. `.fuel` is the model's own bound on the recursion depth; every theorem about the
    evaluator is stated for every fuel. Once a page evaluates to anything but `.fuel` — output or an error — every larger fuel gives
    exactly the same result (Lemmas/FuelMono: a refinement order on results, monotone through all nine evaluator functions). The driver's
    fixed fuel is therefore no parameter of the correspondence. -/
theorem answer_independent_of_fuel (W : World) (f k : Nat) (file : Str) (dom : List Node) (stack : Stack) (r : R (List Node))
    (h : evaluatePage W f file dom stack = r) (hne : r ≠ .fuel) : evaluatePage W (f + k) file dom stack = r :=
  evalList_fuel_mono W f k _ _ _ r h hne

/-! ### termination of the whole evaluator model

`.fuel` is the model's own step bound. The theorems above hold for every fuel; the ones below say that the bound is never what ends an
evaluation — recursion through includes, layouts' components, slots, loops and nested data is bounded for EVERY set of files (cycles of
includes included), every template and every data value. The measure (Lemmas/Terminates) is lexicographic: how far the include chain may
still grow (the limit read from the source), then ten times the size of the nodes at hand plus all slot content reachable from the
context, plus an offset per evaluator function; an include shortens the first component or is the depth error, a `<slot>` moves to content
already counted in the context, a loop instance has lost its `v-for`, everything else moves to a sub-list. The single hypothesis is that the
expression evaluator PARAMETER returns (expr-lang is outside the model); every other leaf — the path resolver, the pipe interpreter,
interpolation with its own scan bound, attribute and condition evaluation — is shown not to run out of steps (Lemmas/TerminatesLeaf). -/

/-- EVERY PAGE EVALUATION TERMINATES: some fuel suffices, and with it or any larger one the answer is the same -/
theorem evaluator_terminates (W : World) (hexpr : ∀ e env, W.P.exprEval e env ≠ .fuel) (file : Str) (dom : List Node) (stack : Stack) :
    ∃ f r, r ≠ .fuel ∧ ∀ f' ≥ f, evaluatePage W f' file dom stack = r :=
  evaluatePage_halts W hexpr file dom stack

/-- … and what it terminates with is output or an ordinary error — never a crash outcome, never the step bound (total correctness of the
    model's control: termination + `evaluator_never_crashes`) -/
theorem evaluator_returns (W : World) (hcfg : W.P.cfg = Generated.reflectCfg) (hsafe : ∀ e env, Safe (W.P.exprEval e env))
    (hexpr : ∀ e env, W.P.exprEval e env ≠ .fuel) (file : Str) (dom : List Node) (stack : Stack) :
    ∃ f, (∃ out st, ∀ f' ≥ f, evaluatePage W f' file dom stack = .ok (out, st)) ∨ (∃ c m, ∀ f' ≥ f, evaluatePage W f' file dom stack = .err c m) := by
  obtain ⟨f, r, hne, hr⟩ := evaluator_terminates W hexpr file dom stack
  refine ⟨f, ?_⟩
  have hc := evaluator_never_crashes W hcfg hsafe f file dom stack
  have hf := hr f (Nat.le_refl _)
  cases r with
  | ok p => exact Or.inl ⟨p.1, p.2, hr⟩
  | err c m => exact Or.inr ⟨c, m, hr⟩
  | panic x => exact absurd hf (hc x).1
  | hang x => exact absurd hf (hc x).2
  | fuel => exact absurd rfl hne

/-- non-vacuity: an evaluator parameter that rejects every expression satisfies the hypothesis, and so does any total function into
    values and errors; a self-including file is a world the theorem covers (its evaluation ends in the depth error of
    `include_beyond_limit_is_error` once the chain is longer than the limit) -/
example : ∃ (W : World), (∀ e env, W.P.exprEval e env ≠ .fuel) ∧ W.files.lookup (S "p") = some ([], [.elem (S "template") [(S "include", S "p")] []]) :=
  ⟨{ P := { exprEval := fun _ _ => .err "expr" [], cfg := Generated.reflectCfg },
     files := [(S "p", ([], [.elem (S "template") [(S "include", S "p")] []]))], comps := [], jsonDecode := fun _ => none },
   ⟨fun _ _ h => (by cases h), rfl⟩⟩

/-- the same for the pieces a render is made of: interpolation, conditions, bound attributes, the pipe interpreter -/
theorem pieces_never_crash (P : Params) (hcfg : P.cfg = Generated.reflectCfg) (hexpr : ∀ e env, Safe (P.exprEval e env)) (s : Stack) (e a : Str) :
    Safe (interpolate P s e) ∧ Safe (evalCondition P s e) ∧ Safe (evalBoundAttribute P s a e) ∧ Safe (evalPipe P s (parsePipeExpr e)) := by
  have g : GoodParams P := ⟨hcfg ▸ source_cfg_guards, hexpr⟩
  exact ⟨safe_interpolate P g s e, safe_evalCondition P g s e, safe_evalBoundAttribute P g s a e, safe_evalPipe P g s _⟩

/-- the one place where the resolver indexes a slice or array through reflect is guarded from both sides: the index parsed, is not negative,
    the value is a slice or an array, and the index is below its length (the model's `viaIndex` has exactly these guards) -/
theorem source_index_guarded :
    Generated.indexLowerBound = true ∧ Generated.indexUpperBound = true ∧ Generated.indexKindChecked = true := by decide

/-- the hypothesis on the reflect guards is needed: without the exported-field check a path through an unexported field panics (the
    pinned tree did; fix `c3dcf50`) -/
theorem unguarded_cfg_crashes :
    (Stack.resolve { Generated.reflectCfg with checksExported := false } { root := .strct [(['s'], [], false, .str ['x'])], scopes := [[]] } ['s']).crash = true := by
  decide

/-- non-vacuity: ExprMini, the stand-in for expr-lang used by the correspondence, never crashes on the sample below, and a page with a
    loop, a chain, an include-free template and a pipe evaluates to output under the theorem's hypotheses -/
example : (evaluatePage { P := { exprEval := fun _ _ => .err "expr" [], cfg := Generated.reflectCfg }, files := [], comps := [], jsonDecode := fun _ => none } 50 (S "p")
    [.elem (S "p") [(S "v-for", S "x in xs")] [.text (S "{{ x | upper }}")]]
    { root := .nil, scopes := [[(S "xs", .list false [.str (S "a")])]] }).crash = false := by
  decide

end Vuego.Props.C11
