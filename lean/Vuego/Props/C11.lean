/-
C11 — every render call returns: no panic, no unbounded recursion.
What the model carries: (i) include recursion is cut by an enforced limit read from the source; (ii) the path resolver cannot panic
(Props/C17); (iii) the evaluator keeps the variable stack bounded (frameAt): depth is restored by every construct.
Not carried by a theorem: panics inside the external libraries on arbitrary bytes, and "no crash outcome of the whole evaluator model"
(that would need the same induction as frameAt over every helper) — both are decided by the isolated-process oracle sweep (partial).
-/
import Vuego.Props.C17
import Vuego.Lemmas.EvalInv
import Vuego.Lemmas.NoCrashEval
import Vuego.Lemmas.NoCrashExpr
import Vuego.Lemmas.FuelMono
import Vuego.Generated.Parse
namespace Vuego.Props.C11
open Go Vuego

/-- the source enforces a limit on the inclusion chain (regenerated constant `maxIncludeDepth`) -/
theorem source_has_include_limit : Generated.includeMaxDepth = some 100 := by decide

/-- an include reached with a chain longer than the limit is an error, for every file set, state and fuel — it never recurses further -/
theorem include_beyond_limit_is_error (W : World) (f : Nat) (ctx : Ctx) (st : St) (attrs : List Attr) (kids : List Node) (vars : Scope)
    (h : ctx.chain.length > includeLimit) :
    evalInclude W (f + 1) ctx st attrs kids vars =
      .err "include-depth" (S "include depth exceeded maximum of " ++ natToStr includeLimit ++ S " (included from " ++ formatChain ctx ++ S "), possible circular include") := by
  simp only [evalInclude, h, ↓reduceIte]

/-- every include evaluates its component with a chain exactly one longer, so a chain of includes — a cycle in particular — reaches the
    limit after at most `limit + 1` nested includes -/
theorem include_extends_chain (ctx : Ctx) (name : Str) : (ctx.chain ++ [name]).length = ctx.chain.length + 1 := by simp

theorem limit_value : includeLimit = 100 := by simp [includeLimit, source_has_include_limit]

/-- the evaluator cannot grow the variable stack: after ANY construct (loops, includes, slots, templates) the depth is what it was -/
theorem stack_depth_bounded (W : World) (f : Nat) (ctx : Ctx) (st st' : St) (nodes out : List Node)
    (hs : st.stack.scopes ≠ []) (h : evalList W f ctx st nodes = .ok (out, st')) :
    st'.stack.scopes.length = st.stack.scopes.length :=
  ((frameAt W f).list ctx st nodes out st' hs h).1.1

/-- path resolution never panics on any value (unexported fields, non-string-keyed maps, nil pointers included) -/
theorem resolve_never_panics (cur : Val) (ps : List Str) (hps : ∀ p ∈ ps, p ≠ []) (site : String) :
    walkPath goodCfg cur ps ≠ .panic site := by
  rw [Vuego.Props.C17.walkPath_eq_goWalk cur ps hps]; intro h; cases h

/-! ### no crash outcome of the whole evaluator model

`.panic` and `.hang` are the model's crash outcomes (a Go panic of the reflect-based resolver, a loop without exit). With the reflect
guards the SOURCE has (`Generated.reflectCfg`, re-read on every run) and any expression evaluator that itself returns normally, no
template, data stack, file set, slot content or fuel makes any evaluator function return one of them: every render of the model ends in
output, an ordinary error, or the model's own step bound. -/

/-- the configuration read from the source satisfies the guards the proof needs -/
theorem source_cfg_guards : GoodCfg Generated.reflectCfg := ⟨by decide, by decide⟩

theorem evaluator_never_crashes (W : World) (hcfg : W.P.cfg = Generated.reflectCfg) (hexpr : ∀ e env, Safe (W.P.exprEval e env))
    (fuel : Nat) (file : Str) (dom : List Node) (stack : Stack) (site : String) :
    evaluatePage W fuel file dom stack ≠ .panic site ∧ evaluatePage W fuel file dom stack ≠ .hang site := by
  have g : GoodParams W.P := ⟨hcfg ▸ source_cfg_guards, hexpr⟩
  have h := (safeAt_all W g fuel).list { slots := [], chain := [file] } { stack := stack, seen := [] } (resolveTagsList W.comps dom)
  unfold evaluatePage
  constructor <;> intro hc <;> rw [hc] at h <;> cases h

/-- for the instance the page correspondence runs every time — expressions evaluated by `ExprMini`, the reflect guards read from the
    source — there is no hypothesis left: no file set, template, data or fuel makes the evaluator model crash -/
theorem evaluator_never_crashes_with_exprMini (files : List (Str × (Scope × List Node))) (comps : List (Str × Str)) (jd : Str → Option Val)
    (fuel : Nat) (file : Str) (dom : List Node) (stack : Stack) (site : String) :
    let W : World := { P := { exprEval := ExprMini.exprEval, cfg := Generated.reflectCfg }, files := files, comps := comps, jsonDecode := jd }
    evaluatePage W fuel file dom stack ≠ .panic site ∧ evaluatePage W fuel file dom stack ≠ .hang site :=
  evaluator_never_crashes _ rfl (fun e env => safe_exprMini e env) fuel file dom stack site

/-- THE ANSWER DOES NOT DEPEND ON THE STEP BOUND. `.fuel` is the model's own bound on the recursion depth; every theorem about the
    evaluator is stated for every fuel. Once a page evaluates to anything but `.fuel` — output or an error — every larger fuel gives
    exactly the same result (Lemmas/FuelMono: a refinement order on results, monotone through all nine evaluator functions). The driver's
    fixed fuel is therefore no parameter of the correspondence. -/
theorem answer_independent_of_fuel (W : World) (f k : Nat) (file : Str) (dom : List Node) (stack : Stack) (r : R (List Node))
    (h : evaluatePage W f file dom stack = r) (hne : r ≠ .fuel) : evaluatePage W (f + k) file dom stack = r :=
  evalList_fuel_mono W f k _ _ _ r h hne

/-- the same for the pieces a render is made of: interpolation, conditions, bound attributes, the pipe interpreter -/
theorem pieces_never_crash (P : Params) (hcfg : P.cfg = Generated.reflectCfg) (hexpr : ∀ e env, Safe (P.exprEval e env)) (s : Stack) (e a : Str) :
    Safe (interpolate P s e) ∧ Safe (evalCondition P s e) ∧ Safe (evalBoundAttribute P s a e) ∧ Safe (evalPipe P s (parsePipeExpr e)) := by
  have g : GoodParams P := ⟨hcfg ▸ source_cfg_guards, hexpr⟩
  exact ⟨safe_interpolate P g s e, safe_evalCondition P g s e, safe_evalBoundAttribute P g s a e, safe_evalPipe P g s _⟩

/-- the one place where the resolver indexes a slice or array through reflect is guarded from both sides: the index parsed, is not negative,
    the value is a slice or an array, and the index is below its length (the model's `viaIndex` has exactly these guards) -/
theorem source_index_guarded :
    Generated.indexLowerBound = true ∧ Generated.indexUpperBound = true ∧ Generated.indexKindChecked = true := by decide

/-- the hypothesis on the reflect guards is needed: without the exported-field check a path through an unexported field panics (the
    pinned tree did; fix `c3dcf50`) -/
theorem unguarded_cfg_crashes :
    (Stack.resolve { Generated.reflectCfg with checksExported := false } { root := .strct [(['s'], [], false, .str ['x'])], scopes := [[]] } ['s']).crash = true := by
  decide

/-- non-vacuity: ExprMini, the stand-in for expr-lang used by the correspondence, never crashes on the sample below, and a page with a
    loop, a chain, an include-free template and a pipe evaluates to output under the theorem's hypotheses -/
example : (evaluatePage { P := { exprEval := fun _ _ => .err "expr" [], cfg := Generated.reflectCfg }, files := [], comps := [], jsonDecode := fun _ => none } 50 (S "p")
    [.elem (S "p") [(S "v-for", S "x in xs")] [.text (S "{{ x | upper }}")]]
    { root := .nil, scopes := [[(S "xs", .list false [.str (S "a")])]] }).crash = false := by
  decide

end Vuego.Props.C11
