/-
C19, the formatter's tree walk (Model/FmtTree.lean; element lists regenerated from the source; validated against formatter.formatNode on
parsed DOMs by the `fmt`/`tree` correspondence stream).

What is proved here for every tree: the layout decisions depend only on the shape the property allows them to depend on —
whitespace-only text between block children contributes nothing; an element is laid out in exactly one of six modes; raw-text and `pre`
content is copied, never re-indented; every text node goes through the escaping writer exactly once. Whole-document idempotence needs
the HTML parser (outside the model): it is decided by the oracle (format twice, parse before/after) and stays PARTIAL.
-/
import Vuego.Model.FmtTree
import Vuego.Lemmas.FmtRaw
import Vuego.Lemmas.FmtInline
namespace Vuego.Props.C19
open Go Vuego Vuego.Fmt Vuego.FmtTree

theorem formatKids_append (w d : Nat) (a b : List Node) : formatKids w d (a ++ b) = formatKids w d a ++ formatKids w d b := by
  induction a with
  | nil => simp [formatKids]
  | cons x r ih => simp [formatKids, ih, List.append_assoc]

/-- whitespace-only text between block children contributes nothing to the layout … -/
theorem ws_text_contributes_nothing (w d : Nat) (t : Str) (h : trimHtml t = []) : formatNode w d (.text t) = [] := by
  simp [formatNode, h]

/-- … so the block loop over all children equals the loop over `collectChildren` (the children that are not whitespace-only text) -/
theorem block_loop_ignores_ws_text (w d : Nat) (kids : List Node) : formatKids w d (collectChildren kids) = formatKids w d kids := by
  induction kids with
  | nil => rfl
  | cons k r ih =>
    unfold collectChildren at *
    simp only [List.filter]
    cases hk : isWsText k with
    | true =>
      simp only [Bool.not_true]
      rw [ih]
      cases k with
      | text t =>
        have : trimHtml t = [] := by simpa [isWsText] using hk
        simp [formatKids, formatNode, this]
      | elem _ _ _ => simp [isWsText] at hk
      | comment _ => simp [isWsText] at hk
      | doctype _ => simp [isWsText] at hk
    | false => simp only [Bool.not_false, formatKids, ih]

/-- every element is written as: indentation, its open tag, a mode-specific middle — and the open tag is the attribute-preserving writer
    of Model/Fmt.lean (`attr_value_reads_back`) in every mode -/
theorem element_starts_with_indent_and_open_tag (w d : Nat) (tag : Str) (attrs : List Attr) (kids : List Node) :
    ∃ rest, formatNode w d (.elem tag attrs kids) = indentOf w d ++ renderOpenTag tag attrs ++ rest := by
  unfold formatNode
  simp only []
  split
  · split
    · exact ⟨closeTag tag ++ ['\n'], by simp [List.append_assoc]⟩
    · exact ⟨['\n'] ++ trimRawContent (rawContent kids) ++ ['\n'] ++ indentOf w d ++ closeTag tag ++ ['\n'], by simp [List.append_assoc]⟩
  · split
    · exact ⟨(if startsWithNewlineText kids then ['\n'] else []) ++ preContent kids ++ closeTag tag ++ ['\n'], by simp [List.append_assoc]⟩
    · split
      · exact ⟨['\n'], rfl⟩
      · split
        · exact ⟨closeTag tag ++ ['\n'], by simp [List.append_assoc]⟩
        · split
          · exact ⟨renderInlineChildren kids ++ closeTag tag ++ ['\n'], by simp [List.append_assoc]⟩
          · exact ⟨['\n'] ++ formatKids w (d + 1) kids ++ indentOf w d ++ closeTag tag ++ ['\n'], by simp [List.append_assoc]⟩

/-- a void element has no end tag and no content, whatever the parser attached to it -/
theorem void_element_one_line (w d : Nat) (tag : Str) (attrs : List Attr) (kids : List Node)
    (h1 : tag ≠ sStyle) (h2 : tag ≠ sScript) (h3 : tag ≠ "pre".toList) (hv : isVoid tag = true) :
    formatNode w d (.elem tag attrs kids) = indentOf w d ++ renderOpenTag tag attrs ++ ['\n'] := by
  have e1 : (tag == sStyle) = false := by simpa using h1
  have e2 : (tag == sScript) = false := by simpa using h2
  have e3 : (tag == "pre".toList) = false := by simpa using h3
  have h3' : tag ≠ ['p', 'r', 'e'] := h3
  unfold formatNode
  simp [e1, e2, h3', hv]

/-- `pre`: the content is `preContent` of the children — text through the escaping writer, elements tag by tag — with no indentation and
    no trimming anywhere inside; the only addition is the one newline the parser would otherwise swallow -/
theorem pre_content_copied (w d : Nat) (attrs : List Attr) (kids : List Node) :
    formatNode w d (.elem "pre".toList attrs kids) =
      indentOf w d ++ renderOpenTag "pre".toList attrs ++ (if startsWithNewlineText kids then ['\n'] else []) ++ preContent kids ++ closeTag "pre".toList ++ ['\n'] := by
  have e : ¬ (['p', 'r', 'e'] = sStyle ∨ ['p', 'r', 'e'] = sScript) := by decide
  unfold formatNode
  simp [e]

/-- text inside `pre` is escaped and otherwise untouched: spaces and newlines included -/
theorem pre_text_verbatim (t : Str) (r : List Node) : preContent (.text t :: r) = escText t ++ preContent r := by
  simp [preContent, preNode]

/-- raw-text elements: the content between the tags is the concatenated text with blank lines trimmed at both ends — not escaped, not
    re-indented line by line -/
theorem raw_text_content (w d : Nat) (attrs : List Attr) (kids : List Node) (h : trimRawContent (rawContent kids) ≠ []) :
    formatNode w d (.elem sScript attrs kids) =
      indentOf w d ++ renderOpenTag sScript attrs ++ ['\n'] ++ trimRawContent (rawContent kids) ++ ['\n'] ++ indentOf w d ++ closeTag sScript ++ ['\n'] := by
  have hb : (trimRawContent (rawContent kids) == []) = false := by simpa using h
  unfold formatNode
  simp [hb]

/-- RAW TEXT IS STABLE UNDER RE-FORMATTING. What the formatter writes between the tags of a script/style element is
    `"\n" ++ content ++ "\n" ++ indentation` with `content` = the trimmed text. Whatever the original text was and whatever the indentation is
    (any blank line: spaces and tabs, no newline), trimming that again gives `content` back: a second pass over the formatter's own
    output leaves the element's text unchanged, at any depth. (The HTML parser returns raw text verbatim — not part of the model.) -/
theorem raw_text_round_trip (s ind : Str) (hind : blankLine ind = true) (hnl : '\n' ∉ ind) (hne : trimRawContent s ≠ []) :
    trimRawContent ('\n' :: trimRawContent s ++ '\n' :: ind) = trimRawContent s := by
  rw [trimRawContent_eq s] at hne ⊢
  generalize hK : trimBlank (splitChar '\n' s) = K at hne ⊢
  have hKne : K ≠ [] := by intro h; subst h; exact hne rfl
  have hpieces : ∀ l ∈ K, '\n' ∉ l := by
    intro l hl
    have hsub : l ∈ splitChar '\n' s := by
      rw [← hK] at hl
      unfold trimBlank at hl
      have h1 := (List.dropWhile_suffix (p := blankLine) (l := (List.dropWhile blankLine (splitChar '\n' s)).reverse)).subset (List.mem_reverse.mp hl)
      exact (List.dropWhile_suffix (p := blankLine) (l := splitChar '\n' s)).subset (List.mem_reverse.mp h1)
    exact splitChar_pieces '\n' s l hsub
  rw [trimRawContent_eq]
  have hsplit : splitChar '\n' ('\n' :: joinWith ['\n'] K ++ '\n' :: ind) = [] :: K ++ [ind] := by
    have h0 : splitChar '\n' ('\n' :: (joinWith ['\n'] K ++ '\n' :: ind)) = [] :: splitChar '\n' (joinWith ['\n'] K ++ '\n' :: ind) := by
      simp [splitChar]
    rw [List.cons_append, h0, splitChar_join_append '\n' K ind hKne hpieces, splitChar_no_sep '\n' ind hnl]
    simp
  rw [hsplit, trimBlank_wrapped K ind hKne (fun x r h => trimBlank_first _ x r (hK ▸ h)) (fun x r h => trimBlank_last _ x r (hK ▸ h)) hind]

/-- INLINE TEXT IS STABLE UNDER RE-FORMATTING: the whitespace normalisation applied to text inside one-line content is idempotent, for every
    string (any mix of Unicode white space, any number of words) -/
theorem inline_text_normalisation_idempotent (s : Str) : normalizeInlineText (normalizeInlineText s) = normalizeInlineText s :=
  normalizeInlineText_idem s

/-- … and it only ever changes white space: the words of the text (`strings.Fields`) are the same before and after -/
theorem inline_text_words_preserved (s : Str) (h : trimHtml s ≠ []) : fieldsHtml (trimHtml (normalizeInlineText s)) = fieldsHtml (trimHtml s) := by
  have hb : (trimHtml s == []) = false := by simpa using h
  have hW : ∀ w ∈ fieldsHtml (trimHtml s), Word w := fields_words _
  have hWne : fieldsHtml (trimHtml s) ≠ [] := by
    obtain ⟨c, hc, hcs⟩ := exists_nonspace_of_trim_ne s h
    exact fieldsAux_ne_nil _ [] (Or.inr ⟨c, hc, hcs⟩)
  obtain ⟨hhead, hlast⟩ := join_head_last _ hWne hW
  have key : ∀ pre post : Str, (∀ x ∈ pre, isHtmlSpace x = true) → (∀ x ∈ post, isHtmlSpace x = true) →
      fieldsHtml (trimHtml (pre ++ joinWith [' '] (fieldsHtml (trimHtml s)) ++ post)) = fieldsHtml (trimHtml s) := by
    intro pre post hp hq
    rw [trimSpace_margins pre _ post hp hq hhead hlast, fields_join _ hW]
  unfold normalizeInlineText
  simp only [hb, Bool.false_eq_true, ↓reduceIte]
  by_cases h1 : (s.head?.map isHtmlSpace).getD false = true <;> by_cases h2 : (s.getLast?.map isHtmlSpace).getD false = true
  · simpa [h1, h2] using key [' '] [' '] (by simp [isHtmlSpace_space]) (by simp [isHtmlSpace_space])
  · simpa [h1, h2] using key [' '] [] (by simp [isHtmlSpace_space]) (by simp)
  · simpa [h1, h2] using key [] [' '] (by simp) (by simp [isHtmlSpace_space])
  · simpa [h1, h2] using key [] [] (by simp) (by simp)

/-- block text: trimmed, escaped once, on a line of its own -/
theorem block_text_line (w d : Nat) (t : Str) (h : trimHtml t ≠ []) :
    formatNode w d (.text t) = indentOf w d ++ escText (trimHtml t) ++ ['\n'] := by
  have hb : (trimHtml t == []) = false := by simpa using h
  simp [formatNode, hb]

/-- TEXT WITHOUT HTML WHITE SPACE IS KEPT AS IT IS: a run of characters none of which is a space, tab, LF, FF or CR - no-break spaces, em
    spaces, ideographic spaces included - comes out of the inline normalisation unchanged (fix `1244d65`: the formatter used Go's Unicode
    notion of white space, `<td>&nbsp;</td>` became `<td></td>`) -/
theorem text_without_html_space_unchanged (s : Str) (hne : s ≠ []) (h : ∀ c ∈ s, isHtmlSpace c = false) : normalizeInlineText s = s := by
  obtain ⟨c, r, hs⟩ : ∃ c r, s = c :: r := by
    cases s with
    | nil => exact absurd rfl hne
    | cons c r => exact ⟨c, r, rfl⟩
  have hc : isHtmlSpace c = false := h c (by simp [hs])
  obtain ⟨d, t, hrev⟩ : ∃ d t, s.reverse = d :: t := by
    cases hr : s.reverse with
    | nil => simp [hs] at hr
    | cons d t => exact ⟨d, t, rfl⟩
  have hd : isHtmlSpace d = false := h d (by
    have : d ∈ s.reverse := by rw [hrev]; simp
    simpa using this)
  have htrim : trimHtml s = s := by
    have := trimSpace_margins [] s [] (by simp) (by simp) ⟨c, r, hs, hc⟩ ⟨d, t, hrev, hd⟩
    simpa using this
  have hfields : fieldsHtml s = [s] := by
    have := fieldsAux_word s h [] []
    simp only [List.append_nil] at this
    simp [fieldsHtml, this, fieldsHtmlAux, hne]
  have hhead : (s.head?.map isHtmlSpace).getD false = false := by simp [hs, hc]
  have hlast : (s.getLast?.map isHtmlSpace).getD false = false := by
    have : s.getLast? = some d := by
      have := congrArg List.head? hrev
      simpa [List.head?_reverse] using this
    simp [this, hd]
  simp [normalizeInlineText, htrim, hfields, joinWith, hhead, hlast]
  intro h0; exact absurd h0 hne

example : normalizeInlineText ['\u00a0'] = ['\u00a0'] ∧ normalizeInlineText "10\u00a0km".toList = "10\u00a0km".toList
    ∧ normalizeInlineText " a \t b ".toList = " a b ".toList := by decide

/-- an element without element children is always kept on one line (rule 1 of shouldKeepInline) -/
theorem text_only_is_inline (tag : Str) (kids : List Node) (h : kids.any FmtTree.isElem = false) : shouldKeepInline tag kids = true := by
  simp [shouldKeepInline, h]

/-- a block element that is neither inline nor a phrasing container is never inlined once it has an element child (rule 4) -/
theorem block_with_element_child_is_block (tag : Str) (kids : List Node) (h : kids.any FmtTree.isElem = true)
    (hi : isInline tag = false) (hp : isPhrasing tag = false) : shouldKeepInline tag kids = false := by
  simp [shouldKeepInline, h, hi, hp]

theorem allInline_append (a b : List Node) : allInline (a ++ b) = (allInline a && allInline b) := by
  induction a with
  | nil => simp [allInline]
  | cons n r ih => simp [allInline, ih, Bool.and_assoc]

/-- an element that is neither void nor on the inline list is not inline content, and no container - inline and phrasing ones included -
    is written on one line when one of its children is such an element -/
theorem non_inline_child_forces_block (tag t : Str) (pre post : List Node) (attrs : List Attr) (kids : List Node)
    (hv : isVoid t = false) (hi : isInline t = false) :
    shouldKeepInline tag (pre ++ .elem t attrs kids :: post) = false := by
  have hany : (pre ++ Node.elem t attrs kids :: post).any FmtTree.isElem = true := by
    simp [FmtTree.isElem]
  have hno : inlineOk (.elem t attrs kids) = false := by simp [inlineOk, hv, hi]
  have hall : allInline (pre ++ Node.elem t attrs kids :: post) = false := by
    rw [allInline_append]
    simp [allInline, hno]
  simp only [shouldKeepInline, hany, hall]
  simp

/-- a `<template>` wrapper (a `v-if` / `v-for` wrapper) is such an element (the lists are regenerated from the source): the wrapper and what
    it wraps - `<pre>`, `<script>`, `<style>` … - go through the block walk, where their content has the treatment it has anywhere else
    (`pre_content_copied`, `raw_text_content`) -/
theorem template_child_forces_block (tag : Str) (pre post : List Node) (attrs : List Attr) (kids : List Node) :
    shouldKeepInline tag (pre ++ .elem "template".toList attrs kids :: post) = false :=
  non_inline_child_forces_block tag _ pre post attrs kids (by decide) (by decide)

/-- the regenerated lists: `div` is a block, `span` inline, `p` a phrasing container, `br` void -/
theorem source_lists_sample :
    isInline "div".toList = false ∧ isPhrasing "div".toList = false ∧ isInline "span".toList = true ∧ isPhrasing "p".toList = true ∧ isVoid "br".toList = true
      ∧ isVoid "div".toList = false := by decide

/-! non-vacuity: the walk on a small tree (two spaces per level) -/
example : trimRawContent "\n\n  a {\n    b\n  }\n \n".toList = "  a {\n    b\n  }".toList
    ∧ trimRawContent ('\n' :: "  a {\n    b\n  }".toList ++ '\n' :: "    ".toList) = "  a {\n    b\n  }".toList := by decide

example : formatKids 2 0 [.elem "div".toList [] [.text "\n  ".toList, .elem "p".toList [] [.text " a ".toList, .elem "b".toList [] [.text "x".toList]], .text "\n".toList, .elem "br".toList [] []]] =
    "<div>\n  <p>a <b>x</b></p>\n  <br>\n</div>\n".toList := by decide

end Vuego.Props.C19
