/-
C14 — attribute binding: falsy omits, class and style merge, directives never leak.
Model: evalAttributes / evalBoundAttribute / mergeStyles / evalVShow (Vuego/Model/Eval.lean, Interp.lean) and renderAttrs with the
regenerated shouldIgnoreAttr / isLiteralAttr (Vuego/Model/Render.lean).
-/
import Vuego.Lemmas.EvalInv
import Vuego.Lemmas.RenderTok
namespace Vuego.Props.C14
open Go Vuego

/-- the documented directive attributes plus the internal ones -/
def directiveKeys : List Str :=
  [S "v-if", S "v-else-if", S "v-else", S "v-for", S "v-html", S "v-text", S "v-show", S "v-pre", S "v-once", S "v-keep",
   S "v-once-id", S "data-v-html-content", S "data-v-text-content"]

/-- (1) every directive attribute is on the serialiser's ignore list (checked against the list regenerated from the source) … -/
theorem directives_on_ignore_list : ∀ k ∈ directiveKeys, Generated.shouldIgnoreAttr k = true := by decide

/-- … so, for every element, a directive attribute contributes nothing to the output, whatever its value -/
theorem directives_never_serialised (k v : Str) (rest : List Attr) (hk : k ∈ directiveKeys) :
    renderAttrs ((k, v) :: rest) = renderAttrs rest := by
  simp [renderAttrs, directives_on_ignore_list k hk]

/-- bound attributes (`:x`, `v-bind:x`) never survive evaluation under their directive spelling: evalAttributes emits only unprefixed names -/
theorem bound_key_is_consumed (P : Params) (s : Stack) (name expr : Str) (v : Val)
    (hne : (':' :: name) ≠ sVHtml ∧ (':' :: name) ≠ sVText)
    (he : evalBoundAttribute P s name (trimSpace expr) = .ok v) :
    evalAttributes P s [(':' :: name, expr)] = .ok (if isTruthy v then [(name, v.sprint)] else [], if isTruthy v then [(name, v)] else []) := by
  have hbn : boundNameOf (':' :: name) = name := by simp [boundNameOf, isBoundKey, hasPrefix]
  have hor : ¬ (':' :: name = sVHtml ∨ ':' :: name = sVText) := fun h => h.elim hne.1 hne.2
  by_cases ht : isTruthy v = true
  · simp [evalAttributes, hbn, he, wrapErr, ht, Scope.set, Scope.get, hasAttr, hor, List.lookup]
  · have hf : isTruthy v = false := by simpa using ht
    simp [evalAttributes, hbn, he, wrapErr, hf, hor]

/-- (2) falsy omits, truthy emits the value's string form (corollaries of the above) -/
theorem bound_falsy_omitted (P : Params) (s : Stack) (name expr : Str) (v : Val)
    (hne : (':' :: name) ≠ sVHtml ∧ (':' :: name) ≠ sVText) (he : evalBoundAttribute P s name (trimSpace expr) = .ok v) (hf : isTruthy v = false) :
    evalAttributes P s [(':' :: name, expr)] = .ok ([], []) := by
  rw [bound_key_is_consumed P s name expr v hne he]; simp [hf]

theorem bound_truthy_emitted (P : Params) (s : Stack) (name expr : Str) (v : Val)
    (hne : (':' :: name) ≠ sVHtml ∧ (':' :: name) ≠ sVText) (he : evalBoundAttribute P s name (trimSpace expr) = .ok v) (ht : isTruthy v = true) :
    evalAttributes P s [(':' :: name, expr)] = .ok ([(name, v.sprint)], [(name, v)]) := by
  rw [bound_key_is_consumed P s name expr v hne he]; simp [ht]

/-- (3) a bound style declaration overrides the same-named static one in place and leaves the others as they were -/
theorem style_override_in_place (pre post : List (Str × Str)) (k old new : Str) (hpre : ∀ d ∈ pre, d.1 ≠ k) :
    mergeStyleDecl (pre ++ (k, old) :: post) (k, new) = pre ++ (k, new) :: post := by
  induction pre with
  | nil => simp [mergeStyleDecl]
  | cons d r ih =>
    obtain ⟨dk, dv⟩ := d
    have hne : dk ≠ k := hpre (dk, dv) (by simp)
    have hb : (dk == k) = false := by simpa using hne
    simp only [List.cons_append, mergeStyleDecl, hb, Bool.false_eq_true, ↓reduceIte]
    rw [ih (fun x hx => hpre x (by simp [hx]))]

/-- a new declaration is appended after the static ones -/
theorem style_new_appended (ds : List (Str × Str)) (k v : Str) (h : ∀ d ∈ ds, d.1 ≠ k) :
    mergeStyleDecl ds (k, v) = ds ++ [(k, v)] := by
  induction ds with
  | nil => rfl
  | cons d r ih =>
    obtain ⟨dk, dv⟩ := d
    have hb : (dk == k) = false := by simpa using h (dk, dv) (by simp)
    simp only [mergeStyleDecl, hb, Bool.false_eq_true, ↓reduceIte, List.cons_append]
    rw [ih (fun x hx => h x (by simp [hx]))]

/-- the kebab form inserts a hyphen before every capital that is NOT the first character, and only there: text without capitals is
    unchanged … -/
theorem camelToKebab_without_capitals (r : Str) (b : Bool) (h : ∀ d ∈ r, ¬ ('A' ≤ d ∧ d ≤ 'Z')) : camelToKebab r b = r := by
  induction r generalizing b with
  | nil => simp [camelToKebab]
  | cons c r ih =>
    have hc : ¬ ('A' ≤ c ∧ c ≤ 'Z') := h c (by simp)
    have hr := ih false (fun d hd => h d (by simp [hd]))
    have hcond : (!b && decide ('A' ≤ c) && decide (c ≤ 'Z')) = false := by
      cases b
      · simp only [Bool.not_false, Bool.true_and, Bool.and_eq_false_iff, decide_eq_false_iff_not]
        by_cases h1 : 'A' ≤ c
        · exact Or.inr (fun h2 => hc ⟨h1, h2⟩)
        · exact Or.inl h1
      · simp
    unfold camelToKebab
    rw [hcond, hr]
    simp

/-- … and the FIRST character is kept as written, capital or not: a key such as `Color` or `Top` is the property name `Color` / `Top`, the
    name a static declaration spelled the same way has - which is what makes the bound value override it in place (`style_override_in_place`) -/
theorem camelToKebab_keeps_leading_capital (c : Char) (r : Str) (h : ∀ d ∈ r, ¬ ('A' ≤ d ∧ d ≤ 'Z')) : camelToKebab (c :: r) true = c :: r := by
  simp only [camelToKebab]
  rw [camelToKebab_without_capitals r false h]
  simp

example : camelToKebab "Color".toList true = "Color".toList ∧ camelToKebab "fontSize".toList true = "font-size".toList ∧
    camelToKebab "WebkitTransition".toList true = "Webkit-transition".toList := by decide

/-- a style value is a CSS value, not a condition: what decides whether a pair contributes a declaration is whether its string form is
    empty — never its truthiness. The number 0 (falsy) contributes `opacity:0;` -/
theorem style_pair_by_string_form (k : Str) (x : Val) :
    buildStyleString [(k, some x)] =
      if trim (trimSpace x.sprint) ['"', '\''] == [] then []
      else (if (trimSpace k).contains '-' then trimSpace k else camelToKebab (trimSpace k) true) ++ ':' :: trim (trimSpace x.sprint) ['"', '\''] ++ [';'] := by
  unfold buildStyleString
  simp only [List.filterMap_cons, List.filterMap_nil]
  split <;> simp_all

example : isTruthy (.int .int 0) = false ∧ buildStyleString [("opacity".toList, some (.int .int 0)), ("zIndex".toList, some (.int .int 0))] = "opacity:0;z-index:0;".toList := by
  decide

/-- (4) v-show adds `display:none` exactly when its condition is falsy, and leaves the attributes alone otherwise -/
theorem vshow_hidden_iff_falsy (P : Params) (s : Stack) (attrs : List Attr) (b : Bool)
    (hne : getAttr attrs (S "v-show") ≠ []) (hc : evalCondition P s (getAttr attrs (S "v-show")) = .ok b) :
    evalVShow P s attrs = .ok (if b then attrs else setAttr attrs (S "style")
      (joinStyleDecls (mergeStyleDecl (parseStyleDecls (getAttr attrs (S "style"))) (S "display", S "none")))) := by
  have : (getAttr attrs (S "v-show") == []) = false := by simpa using hne
  cases b <;> simp [evalVShow, this, hc]

/-- `display:none` ends up in the style even when a static or bound style already declares `display` (it is overridden in place) -/
theorem vshow_overrides_display (pre post : List (Str × Str)) (old : Str) (hpre : ∀ d ∈ pre, d.1 ≠ S "display") :
    mergeStyleDecl (pre ++ (S "display", old) :: post) (S "display", S "none") = pre ++ (S "display", S "none") :: post :=
  style_override_in_place pre post _ old _ hpre

/-- a bracketed key is on no ignore list: it begins with `[`, no directive name does (proved from the regenerated definitions whatever their
    shape — an early return for bracketed keys, a list of comparisons, a lookup in a set of names) -/
theorem literal_attr_not_ignored (k : Str) (hl : Generated.isLiteralAttr k = true) : Generated.shouldIgnoreAttr k = false := by
  have hk : ∃ r, k = '[' :: r := by
    cases k with
    | nil => simp [Generated.isLiteralAttr, Go.hasPrefix] at hl
    | cons c r =>
      have : c = '[' := by
        simp [Generated.isLiteralAttr, Go.hasPrefix] at hl
        exact hl.1
      exact ⟨r, by rw [this]⟩
  obtain ⟨r, rfl⟩ := hk
  simp [Generated.shouldIgnoreAttr, Generated.isLiteralAttr]

/-- (5) bracketed attributes: the serialiser writes `[attr]` as `attr` … -/
theorem bracket_key_unwrapped (k v : Str) (rest : List Attr) (hl : Generated.isLiteralAttr k = true) :
    renderAttrs ((k, v) :: rest) = ' ' :: ((k.drop 1).dropLast ++ ['=', '"'] ++ Generated.escapeAttrValue v ++ ['"'] ++ renderAttrs rest) := by
  have : Generated.shouldIgnoreAttr k = false := literal_attr_not_ignored k hl
  simp [renderAttrs, this, hl]

/-- … and evaluation leaves its value untouched when it holds no mustache (PARTIAL: with a mustache it IS interpolated — recorded finding
    `bracket-attr-interpolated`, pinned by TestVue_EvalAttributes_BoundAndInterpolated) -/
theorem bracket_value_untouched_partial (P : Params) (s : Stack) (k v : Str)
    (hk : hasPrefix k ['['] = true) (hnm : Generated.containsInterpolation (trimSpace v) = false) (hne : k ≠ sVHtml ∧ k ≠ sVText) :
    evalAttributes P s [(k, v)] = .ok ([(k, trimSpace v)], [(k, .str (trimSpace v))]) := by
  have hb : boundNameOf k = k := by
    cases k with
    | nil => simp [hasPrefix] at hk
    | cons c r =>
      have hc : c = '[' := by simpa [hasPrefix] using hk
      subst hc
      have hv : hasPrefix ('[' :: r) (S "v-bind:") = false := by simp [S, hasPrefix]
      simp [boundNameOf, isBoundKey, hasPrefix, hv]
  have hor : ¬ (k = sVHtml ∨ k = sVText) := fun h => h.elim hne.1 hne.2
  simp [evalAttributes, hb, hnm, hor, Scope.get, Scope.set, hasAttr]

theorem bracket_mustache_counterexample :
    evalAttributes { exprEval := fun _ _ => .err "x" [], cfg := goodCfg } { scopes := [[(S "y", .str (S "yy"))]], root := .nil } [(S "[data-k]", S "{{ y }}")]
      = .ok ([(S "[data-k]", S "yy")], [(S "[data-k]", .str (S "yy"))]) := by rfl

end Vuego.Props.C14
