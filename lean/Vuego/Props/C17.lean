/-
C17 — The variable stack is a faithful scope stack with Go-like path resolution.
Model: Vuego/Model/Stack.lean, parametrised by `ReflectCfg`, whose value for the current source is regenerated
(`Generated.reflectCfg`). All theorems are about every stack / value / name / op sequence (no bounds), under the
configuration `goodCfg`; `source_cfg_good` says the source has that configuration.
-/
import Vuego.Lemmas.Stack
import Vuego.Generated.Reflect
namespace Vuego.Props.C17
open Go Vuego Vuego.Stack

/-- the source's reflect helpers have the checked configuration (exported-field check, key-kind check,
    absent missing keys for map[string]string, root struct fields below the scopes in EnvMap and under both names) -/
theorem source_cfg_good : Generated.reflectCfg = goodCfg := by decide

/-- (1) lookup returns the innermost binding: the top-most scope that binds `k` decides. -/
theorem lookup_innermost (cfg : ReflectCfg) (below above : List Scope) (m : Scope) (root : Val) (k : Str) (v : Val)
    (hm : Scope.get m k = some v) (ha : ∀ a ∈ above, Scope.get a k = none) :
    Stack.lookup cfg { scopes := below ++ [m] ++ above, root := root } k = .ok (some v) := by
  have skip : ∀ (l r : List Scope), (∀ a ∈ l, Scope.get a k = none) → lookupScopes (l ++ r) k = lookupScopes r k := by
    intro l r hl
    induction l with
    | nil => rfl
    | cons a l' ih =>
      simp only [List.cons_append, lookupScopes, hl a (by simp)]
      exact ih (fun x hx => hl x (by simp [hx]))
  have : lookupScopes (below ++ [m] ++ above).reverse k = some v := by
    have e : (below ++ [m] ++ above).reverse = above.reverse ++ (m :: below.reverse) := by simp
    rw [e, skip _ _ (fun a ha' => ha a (by simpa using ha'))]
    simp [lookupScopes, hm]
  simp only [Stack.lookup, this]

/-- (1') … and falls back to the root data value when no scope binds the name: exactly plain Go indexing of the root. -/
theorem lookup_root_fallback (s : Stack) (k : Str) (hk : k ≠ [])
    (hn : lookupScopes s.scopes.reverse k = none) :
    Stack.lookup goodCfg s k = .ok (goIndex s.root k) := by
  simp only [Stack.lookup, hn]
  cases hr : s.root with
  | nil => simp [goIndex, derefPtr_nonptr]
  | _ => simp only []; rw [resolveValue_eq_goIndex _ _ hk]

/-- (2) set touches the innermost scope only … -/
theorem set_top_only (below : List Scope) (top : Scope) (root : Val) (k : Str) (v : Val) :
    (Stack.set { scopes := below ++ [top], root := root } k v) = { scopes := below ++ [Scope.set top k v], root := root } := by
  simp [Stack.set, setTop_concat]

/-- … binds the name there … -/
theorem set_then_lookup (cfg : ReflectCfg) (below : List Scope) (top : Scope) (root : Val) (k : Str) (v : Val) :
    Stack.lookup cfg (Stack.set { scopes := below ++ [top], root := root } k v) k = .ok (some v) := by
  rw [set_top_only]
  have := lookup_innermost cfg below [] (Scope.set top k v) root k v (by rw [Scope.get_set]; simp) (by simp)
  simpa using this

/-- … and leaves every other name as it was. -/
theorem set_other_names (cfg : ReflectCfg) (below : List Scope) (top : Scope) (root : Val) (k k' : Str) (v : Val) (h : k' ≠ k) :
    Stack.lookup cfg (Stack.set { scopes := below ++ [top], root := root } k v) k' =
      Stack.lookup cfg { scopes := below ++ [top], root := root } k' := by
  rw [set_top_only]
  simp only [Stack.lookup, lookupScopes_reverse_concat, Scope.get_set, h, ↓reduceIte]

/-- (3) pop restores exactly what held before the matching push: for every op sequence in which each pop has its push
    inside the sequence (`relDepth 0 ops = some 0`), running it in a pushed scope and popping gives back the original stack —
    scopes, bindings and root data. -/
theorem pop_restores_matching_push (s : Stack) (m : Scope) (ops : List Op)
    (hs : s.scopes ≠ []) (hb : relDepth 0 ops = some 0) :
    (run (s.push m) ops).pop = s := by
  cases s with
  | mk scopes root =>
    obtain ⟨extra', h1, h2, h3⟩ := run_frame scopes ops [m] root 0 (by simp) (by simpa using hb)
    match extra', h2 with
    | [m'], _ =>
      have : run (Stack.push { scopes := scopes, root := root } m) ops = { scopes := scopes ++ [m'], root := root } := by
        cases hr : run { scopes := scopes ++ [m], root := root } ops with
        | mk sc rt =>
          rw [hr] at h1 h3
          simp only at h1 h3
          simp only [Stack.push]
          rw [hr, h1, h3]
      rw [this]
      exact pop_concat scopes m' root hs

/-- (4) the merged environment agrees with lookup on every name bound in a scope (scopes win over root struct fields) … -/
theorem envmap_agrees_on_scope_names (s : Stack) (k : Str) (v : Val)
    (hwf : ∀ m ∈ s.scopes, Scope.WF m) (hl : lookupScopes s.scopes.reverse k = some v) :
    Scope.get (s.envMap goodCfg) k = some v ∧ Stack.lookup goodCfg s k = .ok (some v) := by
  constructor
  · simp only [Stack.envMap, goodCfg, ↓reduceIte]
    rw [Stack.get_mergeScopes _ _ _ hwf, hl]
  · simp [Stack.lookup, hl]

/-- … and, when the root is not a struct (nil or map root), on every name whatsoever. -/
theorem envmap_agrees_lookup_nil_root (s : Stack) (k : Str)
    (hwf : ∀ m ∈ s.scopes, Scope.WF m) (hr : s.root = .nil) :
    Stack.lookup goodCfg s k = .ok (Scope.get (s.envMap goodCfg) k) := by
  simp only [Stack.envMap, goodCfg, ↓reduceIte, hr]
  rw [Stack.get_mergeScopes _ _ _ hwf]
  simp only [Stack.lookup, hr]
  cases lookupScopes s.scopes.reverse k <;> rfl

/-- … and also when the root is a MAP of a string-keyed type (`map[string]any`, `map[string]string`, `map[string]int`, a map keyed by a named
    string type): the keys of the root are names of the environment exactly as `Lookup` finds them — on every name whatsoever
    (since fix 677a2b1; before it `EnvMap` only knew struct fields) -/
theorem envmap_agrees_lookup_map_root (s : Stack) (k : Str) (mk : MapKind) (kvs : Scope)
    (hwf : ∀ m ∈ s.scopes, Scope.WF m) (hkv : Scope.WF kvs) (hmk : mk ≠ .nonStrKey) (hk : k ≠ []) (hr : s.root = .map mk kvs) :
    Stack.lookup goodCfg s k = .ok (Scope.get (s.envMap goodCfg) k) := by
  have hpop : populateStructFields true [] (.map mk kvs) = kvs.foldl (fun acc (kv : Str × Val) => Scope.set acc kv.1 kv.2) [] := by
    have : (mk == MapKind.nonStrKey) = false := by cases mk <;> simp_all
    simp [populateStructFields, derefPtr, derefBound, this]
  simp only [Stack.envMap, goodCfg, ↓reduceIte, hr, hpop]
  rw [Stack.get_mergeScopes _ _ _ hwf]
  simp only [Stack.lookup, hr]
  cases lookupScopes s.scopes.reverse k with
  | some v => rfl
  | none =>
    simp only []
    rw [Scope.get_foldl_set kvs [] k hkv]
    have hke : (k == []) = false := by simpa using hk
    cases mk with
    | nonStrKey => exact absurd rfl hmk
    | anyMap => simp [resolveValue, hke, derefPtr, derefBound, Scope.get]; cases List.lookup k kvs <;> rfl
    | strMap => simp [resolveValue, hke, derefPtr, derefBound, Scope.get]; cases List.lookup k kvs <;> rfl
    | otherStrKey => simp [resolveValue, hke, derefPtr, derefBound, Scope.get]; cases List.lookup k kvs <;> rfl

/-- well-formedness (unique keys per scope) is preserved by `set`, so it holds in every reachable stack -/
theorem set_preserves_wf (below : List Scope) (top : Scope) (root : Val) (k : Str) (v : Val)
    (hwf : ∀ m ∈ below ++ [top], Scope.WF m) :
    ∀ m ∈ (Stack.set { scopes := below ++ [top], root := root } k v).scopes, Scope.WF m := by
  rw [set_top_only]
  intro m hm
  simp only [List.mem_append, List.mem_singleton] at hm
  rcases hm with hm | rfl
  · exact hwf m (by simp [hm])
  · exact Scope.set_wf _ _ _ (hwf top (by simp))

/-- (5) a copy has the merged environment as its only scope and the same root: `lookup` through the copy reads the snapshot. -/
theorem copy_is_snapshot (cfg : ReflectCfg) (s : Stack) :
    (s.copy cfg).scopes = [s.envMap cfg] ∧ (s.copy cfg).root = s.root := ⟨rfl, rfl⟩

/-- (6) one step of a path resolves exactly like plain Go indexing (absence ≙ nil), for every value and segment … -/
theorem resolveStep_eq_goIndex (cur : Val) (p : Str) (hp : p ≠ []) :
    resolveStep goodCfg cur p = .ok ((goIndex cur p).getD .nil) := by
  have fallback : ∀ c : Val, viaIndex c p = none → absentAsNil (resolveValue goodCfg c p) = .ok ((goIndex c p).getD .nil) := by
    intro c _
    rw [resolveValue_eq_goIndex _ _ hp]
    cases goIndex c p <;> rfl
  cases cur with
  | map mk kvs =>
    cases mk
    · simp [resolveStep, goIndex, derefPtr_nonptr]
    · simp [resolveStep, goIndex, derefPtr_nonptr, goodCfg]
    · simp only [resolveStep, viaIndex]; exact fallback _ rfl
    · simp only [resolveStep, viaIndex]; exact fallback _ rfl
  | list a xs =>
    simp only [resolveStep]
    cases hv : viaIndex (Val.list a xs) p with
    | none => exact fallback _ hv
    | some v =>
      simp only []
      have : goIndex (Val.list a xs) p = some v := by
        simp only [viaIndex] at hv
        simp only [goIndex, derefPtr_nonptr _ (Val.list a xs) (by intro t h; cases h)]
        cases ha : atoi p with
        | none => simp [ha] at hv
        | some i =>
          simp only [ha] at hv ⊢
          by_cases hi : i ≥ 0
          · simp only [hi, ↓reduceIte] at hv
            simp [show ¬ i < 0 from by omega, hv]
          · simp [hi] at hv
      simp [this]
  | nil => simp only [resolveStep, viaIndex]; exact fallback _ rfl
  | bool b => simp only [resolveStep, viaIndex]; exact fallback _ rfl
  | int k n => simp only [resolveStep, viaIndex]; exact fallback _ rfl
  | float k z q => simp only [resolveStep, viaIndex]; exact fallback _ rfl
  | str s => simp only [resolveStep, viaIndex]; exact fallback _ rfl
  | strct fs => simp only [resolveStep, viaIndex]; exact fallback _ rfl
  | ptr t => simp only [resolveStep, viaIndex]; exact fallback _ rfl
  | opaq t q => simp only [resolveStep, viaIndex]; exact fallback _ rfl

/-- the specification of a whole path: iterate plain indexing, stopping with absence at the first nil or missing step -/
def goWalk : Val → List Str → Option Val
  | cur, [] => some cur
  | cur, p :: rest =>
    match goIndex cur p with
    | none => none
    | some .nil => none
    | some v => goWalk v rest

/-- … hence a whole path resolves like iterated Go indexing and reports absence otherwise; in particular it never panics. -/
theorem walkPath_eq_goWalk (cur : Val) (ps : List Str) (hps : ∀ p ∈ ps, p ≠ []) :
    walkPath goodCfg cur ps = .ok (goWalk cur ps) := by
  induction ps generalizing cur with
  | nil => rfl
  | cons p rest ih =>
    simp only [walkPath, goWalk]
    rw [resolveStep_eq_goIndex _ _ (hps p (by simp))]
    cases hg : goIndex cur p with
    | none => rfl
    | some v =>
      cases v <;> simp only [Option.getD_some] <;> first | rfl | exact ih _ (fun q hq => hps q (by simp [hq]))

/-- before the repairs the model did panic: an unexported field in a path, and a non-string-keyed map in a path -/
theorem unfixed_cfg_panics :
    resolveStep { goodCfg with checksExported := false, checksKeyKind := false } (.strct [(['s'], [], false, .str ['x'])]) ['s']
      = .panic "reflect: Interface of unexported field" ∧
    resolveStep { goodCfg with checksExported := false, checksKeyKind := false } (.map .nonStrKey [(['1'], .str ['x'])]) ['1']
      = .panic "reflect: MapIndex with a string key on a non-string-keyed map" := ⟨rfl, rfl⟩

/-! Non-vacuity: concrete stacks and paths on which the statements have content. -/
section
def exRoot : Val := .strct [(['N','a','m','e'], ['n','a','m','e'], true, .str ['n']), (['s','e','c'], [], false, .int .int 1),
                            (['I','n'], [], true, .strct [(['X'], ['x'], true, .int .int 9)])]
def exStack : Stack := { scopes := [[(['a'], .int .int 1)], [(['a'], .int .int 2), (['l'], .list false [.str ['z'], .map .anyMap [(['k'], .bool true)]])]], root := exRoot }
example : Stack.lookup goodCfg exStack ['a'] = .ok (some (.int .int 2)) := rfl
example : Stack.lookup goodCfg exStack ['n','a','m','e'] = .ok (some (.str ['n'])) := rfl
example : Stack.lookup goodCfg exStack ['s','e','c'] = .ok none := rfl
example : Stack.resolve goodCfg exStack ['l','[','1',']','.','k'] = .ok (some (.bool true)) := rfl
example : relDepth 0 [.set ['a'] .nil, .push [], .set ['b'] .nil, .pop] = some 0 := rfl
example : (∀ m ∈ exStack.scopes, Scope.WF m) := by
  intro m hm
  simp only [exStack, List.mem_cons, List.not_mem_nil, or_false] at hm
  rcases hm with rfl | rfl <;> simp [Scope.WF]
end

/-- POPPING THE BOTTOM SCOPE (one `Pop` more than `Push`) leaves the root data value alone: the stack has one fresh empty scope, and every
    name is answered from the root data exactly as `resolveValue` reads it - the value the caller passed is never emptied -/
theorem root_pop_keeps_root_data (s : Stack) (m : Scope) (h : s.scopes = [m]) : s.pop.root = s.root ∧ s.pop.scopes = [[]] := by
  simp [Stack.pop, h]

theorem root_pop_falls_back_to_root_data (cfg : ReflectCfg) (s : Stack) (m : Scope) (k : Str) (h : s.scopes = [m]) (hr : s.root ≠ .nil) :
    Stack.lookup cfg s.pop k = resolveValue cfg s.root k := by
  obtain ⟨h1, h2⟩ := root_pop_keeps_root_data s m h
  unfold Stack.lookup
  rw [h2, h1]
  cases hroot : s.root <;> first
    | exact absurd hroot hr
    | simp only [List.reverse_cons, List.reverse_nil, List.nil_append, Stack.lookupScopes, Scope.get, List.lookup]

end Vuego.Props.C17
