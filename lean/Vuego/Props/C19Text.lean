/-
C19 — text content reads back: for EVERY text (mustaches, unclosed braces, ampersands, comparison operators included) what `escapeText`
writes (a) decodes to the text itself under any character-reference table that knows `&amp; &lt; &gt;`, and (b) contains no `<` that an
HTML tokenizer would take for the start of a tag, an end tag or a comment. Before fix 87b3580 a `{{ }}` expression was copied verbatim and
both failed (`{{ a <b }}`, `{{ s == "&lt;" }}`).
-/
import Vuego.Props.C19
namespace Vuego.Props.C19
open Go Vuego Vuego.Fmt

/-! ### the decoder's fuel is irrelevant once it covers the text -/

theorem decode_fuel (entity : Str → Option (Str × Nat)) : ∀ (f g : Nat) (s : Str), s.length ≤ f → s.length ≤ g → decode entity f s = decode entity g s
  | _, _, [], _, _ => by rw [decode_nil, decode_nil]
  | 0, _, _ :: _, hf, _ => by simp at hf
  | _, 0, _ :: _, _, hg => by simp at hg
  | f + 1, g + 1, c :: r, hf, hg => by
    simp only [List.length_cons, Nat.add_le_add_iff_right] at hf hg
    simp only [decode]
    split
    · split
      · rename_i rep n _
        rw [decode_fuel entity f g (r.drop n) (by simp; omega) (by simp; omega)]
      · rw [decode_fuel entity f g r hf hg]
    · rw [decode_fuel entity f g r hf hg]

/-- decoding with enough fuel -/
def dec (entity : Str → Option (Str × Nat)) (s : Str) : Str := decode entity s.length s

theorem dec_nil (entity) : dec entity [] = [] := by simp [dec, decode_nil]

theorem dec_plain (entity : Str → Option (Str × Nat)) (c : Char) (t : Str) (hc : c ≠ '&') : dec entity (c :: t) = c :: dec entity t := by
  simp only [dec, List.length_cons]
  rw [decode_plain entity _ c t hc]

theorem dec_bare_amp (entity : Str → Option (Str × Nat)) (t : Str) (hc : startsRef t = false) : dec entity ('&' :: t) = '&' :: dec entity t := by
  simp only [dec, List.length_cons]
  rw [decode_bare_amp entity _ t hc]

theorem dec_amp (entity : Str → Option (Str × Nat)) (he : EntityOK entity) (t : Str) : dec entity (amp ++ t) = '&' :: dec entity t := by
  have h1 : startsRef ('a' :: 'm' :: 'p' :: ';' :: t) = true := by show isRefStart 'a' = true; decide
  simp only [dec, amp, List.cons_append, List.nil_append, List.length_cons, decode, beq_self_eq_true, h1, Bool.and_self, ↓reduceIte, he.amp,
    List.drop_succ_cons, List.drop_zero]
  rw [decode_fuel entity _ t.length t (by omega) (Nat.le_refl _)]

theorem dec_lt (entity : Str → Option (Str × Nat)) (he : EntityOK entity) (t : Str) : dec entity (ltRef ++ t) = '<' :: dec entity t := by
  have h1 : startsRef ('l' :: 't' :: ';' :: t) = true := by show isRefStart 'l' = true; decide
  simp only [dec, ltRef, List.cons_append, List.nil_append, List.length_cons, decode, beq_self_eq_true, h1, Bool.and_self, ↓reduceIte, he.lt,
    List.drop_succ_cons, List.drop_zero]
  rw [decode_fuel entity _ t.length t (by omega) (Nat.le_refl _)]

theorem dec_gt (entity : Str → Option (Str × Nat)) (he : EntityOK entity) (t : Str) : dec entity (['&','g','t',';'] ++ t) = '>' :: dec entity t := by
  have h1 : startsRef ('g' :: 't' :: ';' :: t) = true := by show isRefStart 'g' = true; decide
  simp only [dec, List.cons_append, List.nil_append, List.length_cons, decode, beq_self_eq_true, h1, Bool.and_self, ↓reduceIte, he.gt,
    List.drop_succ_cons, List.drop_zero]
  rw [decode_fuel entity _ t.length t (by omega) (Nat.le_refl _)]

theorem dec_escTextChar (entity : Str → Option (Str × Nat)) (he : EntityOK entity) (c : Char) (t : Str) :
    dec entity (escTextChar c ++ t) = c :: dec entity t := by
  unfold escTextChar
  by_cases h1 : c = '&'
  · subst h1; simp only [beq_self_eq_true, ↓reduceIte]; exact dec_amp entity he t
  · by_cases h2 : c = '<'
    · subst h2; exact dec_lt entity he t
    · by_cases h3 : c = '>'
      · subst h3; exact dec_gt entity he t
      · simp only [beq_iff_eq, h1, h2, h3, ↓reduceIte, List.cons_append, List.nil_append]
        exact dec_plain entity c t h1

/-! ### what an output can start with -/

/-- the first character written for a text is the text's first character or an `&` -/
theorem startsRef_writeExpr_append (e out : Str) (h : startsRef (e ++ out) = false) : startsRef (writeExpr e ++ out) = false := by
  cases e with
  | nil => simpa [writeExpr] using h
  | cons c r =>
    simp only [writeExpr, exprPiece]
    split
    · rfl
    · split
      · rfl
      · simpa [startsRef] using h

/-- the expression writer reads back: decoding what was written for an expression `e` followed by any continuation gives `e` followed by
    the decoded continuation, provided `e` does not END in an ampersand (an expression ends in `}}`) -/
theorem dec_writeExpr_append (entity : Str → Option (Str × Nat)) (he : EntityOK entity) :
    ∀ (e out : Str), e.getLast? ≠ some '&' → dec entity (writeExpr e ++ out) = e ++ dec entity out
  | [], out, _ => by simp [writeExpr]
  | c :: r, out, hl => by
    have hl' : r.getLast? ≠ some '&' := by
      cases r with
      | nil => simp
      | cons d r' => simpa [List.getLast?_cons_cons] using hl
    have ih := dec_writeExpr_append entity he r out hl'
    simp only [writeExpr, exprPiece, List.append_assoc, List.cons_append]
    by_cases h1 : (c == '<' && startsTag r) = true
    · simp only [h1, ↓reduceIte]
      have hc : c = '<' := by simp at h1; exact h1.1
      rw [dec_lt entity he, ih, hc]
    · simp only [h1, Bool.false_eq_true, ↓reduceIte]
      by_cases h2 : (c == '&' && startsRef r) = true
      · simp only [h2, ↓reduceIte]
        have hc : c = '&' := by simp at h2; exact h2.1
        rw [dec_amp entity he, ih, hc]
      · simp only [h2, Bool.false_eq_true, ↓reduceIte, List.cons_append, List.nil_append]
        by_cases hc : c = '&'
        · subst hc
          have hr : startsRef r = false := by simpa using h2
          -- r is not empty (the expression does not end in `&`), so what follows the `&` starts like r
          have hne : r ≠ [] := by intro e; subst e; simp at hl
          have hs : startsRef (r ++ out) = false := by
            cases r with
            | nil => exact absurd rfl hne
            | cons d r' => simpa [startsRef] using hr
          rw [dec_bare_amp entity _ (startsRef_writeExpr_append r out hs), ih]
        · rw [dec_plain entity c _ hc, ih]

theorem last_of_close (x pre : Str) : (x ++ (pre ++ ['}', '}'])).getLast? = some '}' := by
  have : x ++ (pre ++ ['}', '}']) = (x ++ pre ++ ['}']) ++ ['}'] := by simp
  rw [this, List.getLast?_concat]

theorem findClose_spec : ∀ (r : Str) (e : Nat), findClose r = some e → ∃ pre, r.take (e + 2) = pre ++ ['}', '}']
  | [], e, h => by simp [findClose] at h
  | [_], e, h => by simp [findClose] at h
  | a :: b :: r, e, h => by
    simp only [findClose] at h
    split at h
    · rename_i hab
      simp only [Option.some.injEq] at h
      subst h
      simp only [Bool.and_eq_true, beq_iff_eq] at hab
      exact ⟨[], by simp [hab.1, hab.2]⟩
    · cases hf : findClose (b :: r) with
      | none => rw [hf] at h; cases h
      | some e' =>
        rw [hf] at h
        simp only [Option.map_some, Option.some.injEq] at h
        subst h
        obtain ⟨pre, hp⟩ := findClose_spec (b :: r) e' hf
        refine ⟨a :: pre, ?_⟩
        have : (a :: b :: r).take (e' + 1 + 2) = a :: (b :: r).take (e' + 2) := by simp [List.take_succ_cons]
        rw [this, hp]; rfl

/-- TEXT READS BACK. For every text `s`: decoding what `escapeText` wrote — with any reference table that knows `&amp; &lt; &gt;` — gives `s`
    again, `{{ }}` expressions, unclosed braces and bare ampersands included. -/
theorem text_reads_back (entity : Str → Option (Str × Nat)) (he : EntityOK entity) :
    ∀ (f : Nat) (s : Str), s.length < f → dec entity (escapeText f s) = s
  | 0, _, h => by omega
  | f + 1, [], _ => by simp [escapeText, dec_nil]
  | f + 1, c :: r, h => by
    simp only [List.length_cons, Nat.add_lt_add_iff_right] at h
    simp only [escapeText]
    split
    · rename_i hcc
      split
      · rename_i e hfc
        obtain ⟨pre, hp⟩ := findClose_spec _ _ hfc
        have hc : c = '{' := by simp at hcc; exact hcc.1
        have hr : ∃ r', r = '{' :: r' := by
          cases r with
          | nil => simp [hasPrefix] at hcc
          | cons d r' => simp [hasPrefix] at hcc; exact ⟨r', by rw [hcc.2]⟩
        obtain ⟨r', hr'⟩ := hr
        subst hr'
        simp only [List.drop_succ_cons, List.drop_zero] at hfc hp ⊢
        rw [dec_writeExpr_append entity he _ _ (by rw [hp]; rw [show ('{' :: '{' :: (pre ++ ['}', '}'])) = ['{', '{'] ++ (pre ++ ['}', '}']) from rfl, last_of_close]; simp)]
        rw [text_reads_back entity he f _ (by simp at h ⊢; omega)]
        rw [hc]
        simp [List.take_append_drop]
      · rw [dec_escTextChar entity he, text_reads_back entity he f r h]
    · rw [dec_escTextChar entity he, text_reads_back entity he f r h]

/-! ### no `<` that opens markup -/

/-- every `<` in the text is followed by a character that cannot open a tag, an end tag or a comment, and the text does not end in `<` -/
def NoTagOpen : Str → Prop
  | [] => True
  | c :: r => (c = '<' → r ≠ [] ∧ startsTag r = false) ∧ NoTagOpen r

theorem noTagOpen_append_of_head (a b : Str) (ha : NoTagOpen a) (hb : NoTagOpen b) (hlast : a.getLast? ≠ some '<') : NoTagOpen (a ++ b) := by
  induction a with
  | nil => simpa using hb
  | cons c r ih =>
    obtain ⟨h1, h2⟩ := ha
    have hl' : r.getLast? ≠ some '<' := by
      cases r with
      | nil => simp
      | cons d r' => simpa [List.getLast?_cons_cons] using hlast
    refine ⟨?_, ih h2 hl'⟩
    intro hc
    obtain ⟨hne, hst⟩ := h1 hc
    cases r with
    | nil => exact absurd rfl hne
    | cons d r' => exact ⟨by simp, by simpa [startsTag] using hst⟩

theorem noTagOpen_escTextChar (c : Char) : NoTagOpen (escTextChar c) ∧ (escTextChar c).getLast? ≠ some '<' := by
  unfold escTextChar
  by_cases h1 : c = '&'
  · subst h1; simp [amp, NoTagOpen]
  · by_cases h2 : c = '<'
    · subst h2; simp [NoTagOpen]
    · by_cases h3 : c = '>'
      · subst h3; simp [NoTagOpen]
      · simp only [beq_iff_eq, h1, h2, h3, ↓reduceIte]
        exact ⟨⟨fun e => absurd e h2, trivial⟩, by simp; exact h2⟩

theorem noTagOpen_writeExpr : ∀ (e : Str), e.getLast? ≠ some '<' → NoTagOpen (writeExpr e) ∧ (writeExpr e).getLast? ≠ some '<'
  | [], _ => by simp [writeExpr, NoTagOpen]
  | c :: r, hl => by
    have hl' : r.getLast? ≠ some '<' := by
      cases r with
      | nil => simp
      | cons d r' => simpa [List.getLast?_cons_cons] using hl
    obtain ⟨ih1, ih2⟩ := noTagOpen_writeExpr r hl'
    simp only [writeExpr, exprPiece]
    by_cases h1 : (c == '<' && startsTag r) = true
    · simp only [h1, ↓reduceIte]
      refine ⟨noTagOpen_append_of_head _ _ (by simp [ltRef, NoTagOpen]) ih1 (by simp [ltRef]), ?_⟩
      cases hw : writeExpr r with
      | nil => simp [ltRef]
      | cons d t => rw [hw] at ih2; simpa [ltRef, List.getLast?_append, List.getLast?_cons_cons] using ih2
    · simp only [h1, Bool.false_eq_true, ↓reduceIte]
      by_cases h2 : (c == '&' && startsRef r) = true
      · simp only [h2, ↓reduceIte]
        refine ⟨noTagOpen_append_of_head _ _ (by simp [amp, NoTagOpen]) ih1 (by simp [amp]), ?_⟩
        cases hw : writeExpr r with
        | nil => simp [amp]
        | cons d t => rw [hw] at ih2; simpa [amp, List.getLast?_append, List.getLast?_cons_cons] using ih2
      · simp only [h2, Bool.false_eq_true, ↓reduceIte, List.cons_append, List.nil_append]
        constructor
        · refine ⟨?_, ih1⟩
          intro hc
          subst hc
          have hst : startsTag r = false := by simpa using h1
          have hne : r ≠ [] := by intro e; subst e; simp at hl
          -- what was written for r starts with r's first character or an `&`
          cases r with
          | nil => exact absurd rfl hne
          | cons d r' =>
            simp only [writeExpr, exprPiece]
            split
            · exact ⟨by simp [ltRef], by simp [ltRef, startsTag, isTagStart]⟩
            · split
              · exact ⟨by simp [amp], by simp [amp, startsTag, isTagStart]⟩
              · exact ⟨by simp, by simpa [startsTag] using hst⟩
        · cases hw : writeExpr r with
          | nil =>
            cases r with
            | nil => simpa using hl
            | cons d r' => simp [writeExpr, exprPiece] at hw; split at hw <;> (try split at hw) <;> simp [ltRef, amp] at hw
          | cons d t => rw [hw] at ih2; simpa [List.getLast?_cons_cons] using ih2

/-- NO MARKUP IS INTRODUCED. For every text, what `escapeText` writes contains no `<` followed by a character that opens a tag, an end tag or a
    comment, and does not end in `<`: read again, the whole of it is character data -/
theorem text_opens_no_tag : ∀ (f : Nat) (s : Str), NoTagOpen (escapeText f s) ∧ (escapeText f s).getLast? ≠ some '<'
  | 0, _ => by simp [escapeText, NoTagOpen]
  | f + 1, [] => by simp [escapeText, NoTagOpen]
  | f + 1, c :: r => by
    have step : ∀ (a : Str) (t : Str), NoTagOpen a ∧ a.getLast? ≠ some '<' → a ≠ [] → (NoTagOpen (escapeText f t) ∧ (escapeText f t).getLast? ≠ some '<') →
        NoTagOpen (a ++ escapeText f t) ∧ (a ++ escapeText f t).getLast? ≠ some '<' := by
      intro a t ha hne ht
      refine ⟨noTagOpen_append_of_head _ _ ha.1 ht.1 ha.2, ?_⟩
      cases hw : escapeText f t with
      | nil => simpa using ha.2
      | cons d u => rw [hw] at ht; rw [List.getLast?_append]; simpa using ht.2
    simp only [escapeText]
    split
    · split
      · rename_i e hfc
        obtain ⟨pre, hp⟩ := findClose_spec _ _ hfc
        have hlast : ('{' :: '{' :: List.take (e + 2) (List.drop 1 r)).getLast? ≠ some '<' := by
          rw [hp, show ('{' :: '{' :: (pre ++ ['}', '}'])) = ['{', '{'] ++ (pre ++ ['}', '}']) from rfl, last_of_close]; simp
        have hne : writeExpr ('{' :: '{' :: List.take (e + 2) (List.drop 1 r)) ≠ [] := by
          simp only [writeExpr, exprPiece]
          simp [startsTag, isTagStart]
        exact step _ _ (noTagOpen_writeExpr _ hlast) hne (text_opens_no_tag f _)
      · refine step _ _ (noTagOpen_escTextChar c) ?_ (text_opens_no_tag f r)
        unfold escTextChar; split <;> (try split) <;> (try split) <;> simp [amp]
    · refine step _ _ (noTagOpen_escTextChar c) ?_ (text_opens_no_tag f r)
      unfold escTextChar; split <;> (try split) <;> (try split) <;> simp [amp]

/-! the pinned rule (expressions copied verbatim) fails both: these are the outputs of the repaired rule on the two witnesses -/
example : escapeText 100 "{{ a <b }} c".toList = "{{ a &lt;b }} c".toList := by decide
example : escapeText 100 "{{ s == \"&lt;\" }}".toList = "{{ s == \"&amp;lt;\" }}".toList := by decide
example : escapeText 100 "{{ a < b }} {{ a && b }} {{ open &".toList = "{{ a < b }} {{ a && b }} {{ open &amp;".toList := by decide

end Vuego.Props.C19
