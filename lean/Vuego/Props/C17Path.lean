/-
C17 — path SYNTAX: a dotted / bracketed path text denotes the list of its steps. For every head name and every list of further steps, each
written in any of the accepted forms (`.name`, `[name]`, `['name']`, `["name"]`), `splitPath` returns exactly the names, in order. Together
with `walkPath_eq_goWalk` (Props/C17) this is "a path resolves to the element ordinary Go indexing reaches" from the TEXT of the path.
-/
import Vuego.Props.C17
import Vuego.Lemmas.FmtRaw
namespace Vuego.Props.C17
open Go Vuego Vuego.Stack Vuego.FmtTree

/-- characters a step name must not contain for the path text to be unambiguous: separators, brackets, quotes, white space -/
def pathSpecial (c : Char) : Bool := c == '.' || c == '[' || c == ']' || c == '\'' || c == '"' || isSpace c

/-- a step name: not empty, no special character -/
def CleanName (n : Str) : Prop := n ≠ [] ∧ ∀ c ∈ n, pathSpecial c = false

/-- the forms a step after the first can be written in -/
inductive StepForm where
  | dot | bracket | single | double
  deriving DecidableEq

def writeStep : StepForm → Str → Str
  | .dot, n => '.' :: n
  | .bracket, n => '[' :: n ++ [']']
  | .single, n => '[' :: '\'' :: n ++ ['\'', ']']
  | .double, n => '[' :: '"' :: n ++ ['"', ']']

def writeSteps : List (StepForm × Str) → Str
  | [] => []
  | (f, n) :: r => writeStep f n ++ writeSteps r

/-- the same steps, all in dotted form -/
def dotted : List (StepForm × Str) → Str
  | [] => []
  | (_, n) :: r => '.' :: n ++ dotted r

/-! ### white space -/

theorem clean_no_space {n : Str} (h : CleanName n) : ∀ c ∈ n, isSpace c = false := by
  intro c hc
  have := h.2 c hc
  simp only [pathSpecial, Bool.or_eq_false_iff] at this
  exact this.2

theorem dropWhile_of_head {p : Char → Bool} : ∀ (s : Str), (∀ c, s.head? = some c → p c = false) → s.dropWhile p = s
  | [], _ => rfl
  | c :: r, h => by simp [List.dropWhile, h c rfl]

/-- text that begins and ends with a non-space character is its own trimmed form -/
theorem trimSpace_of_ends (s : Str) (h1 : ∀ c, s.head? = some c → isSpace c = false) (h2 : ∀ c, s.getLast? = some c → isSpace c = false) :
    trimSpace s = s := by
  unfold trimSpace trimLeft trimRight
  rw [dropWhile_of_head s h1, dropWhile_of_head s.reverse (by intro c hc; exact h2 c (by simpa [List.head?_reverse] using hc))]
  simp

theorem trimSpace_clean {n : Str} (h : CleanName n) : trimSpace n = n := by
  apply trimSpace_of_ends
  · intro c hc
    cases n with
    | nil => cases hc
    | cons d r => simp at hc; subst hc; exact clean_no_space h d (by simp)
  · intro c hc
    exact clean_no_space h c (List.mem_of_getLast? hc)

/-! ### the bracket rewriting -/

theorem span_loop_until (p : Char → Bool) (c : Char) (hc : p c = false) : ∀ (n rest acc : Str), (∀ x ∈ n, p x = true) →
    List.span.loop p (n ++ c :: rest) acc = (acc.reverse ++ n, c :: rest)
  | [], rest, acc, _ => by simp [List.span.loop, hc]
  | x :: n, rest, acc, h => by
    have hx : p x = true := h x (by simp)
    simp only [List.cons_append, List.span.loop, hx]
    rw [span_loop_until p c hc n rest (x :: acc) (fun y hy => h y (by simp [hy]))]
    simp

theorem span_until (p : Char → Bool) (c : Char) (hc : p c = false) (n rest : Str) (h : ∀ x ∈ n, p x = true) :
    (n ++ c :: rest).span p = (n, c :: rest) := by
  unfold List.span
  rw [span_loop_until p c hc n rest [] h]; simp

theorem clean_mem_ne {n : Str} (h : CleanName n) (c : Char) (hs : pathSpecial c = true) : c ∉ n := by
  intro hc
  rw [h.2 c hc] at hs
  cases hs

theorem rewriteBrackets_other (f : Nat) (c : Char) (r : Str) (hc : c ≠ '[') : rewriteBrackets (f + 1) (c :: r) = c :: rewriteBrackets f r := by
  simp [rewriteBrackets]

/-- characters other than `[` pass through the rewriting -/
theorem rewriteBrackets_prefix : ∀ (a r : Str) (f : Nat), '[' ∉ a → rewriteBrackets (f + a.length) (a ++ r) = a ++ rewriteBrackets f r
  | [], r, f, _ => by simp
  | c :: a, r, f, h => by
    have hc : c ≠ '[' := fun e => h (by simp [e])
    have ha : '[' ∉ a := fun e => h (by simp [e])
    have : f + (c :: a).length = (f + a.length) + 1 := by simp; omega
    rw [this, List.cons_append, rewriteBrackets_other _ c _ hc, rewriteBrackets_prefix a r f ha]
    rfl

/-- the quote stripping of the bracket branch -/
def stripQuotes (t : Str) : Str :=
  if t.length ≥ 2 && ((t.head? == some '\'' && t.getLast? == some '\'') || (t.head? == some '"' && t.getLast? == some '"')) then (t.drop 1).dropLast else t

theorem rewriteBrackets_open (f : Nat) (inside after : Str) (h : ']' ∉ inside) :
    rewriteBrackets (f + 1) ('[' :: (inside ++ ']' :: after)) =
      (if stripQuotes (trimSpace inside) != [] then '.' :: (stripQuotes (trimSpace inside) ++ rewriteBrackets f after) else rewriteBrackets f after) := by
  rw [rewriteBrackets]
  rw [span_until (· != ']') ']' (by simp) inside after (by intro x hx; simpa using (fun e : x = ']' => h (e ▸ hx)))]
  rfl

theorem stripQuotes_clean {n : Str} (h : CleanName n) : stripQuotes n = n := by
  unfold stripQuotes
  have hq1 : '\'' ∉ n := clean_mem_ne h '\'' (by decide)
  have hq2 : '"' ∉ n := clean_mem_ne h '"' (by decide)
  cases n with
  | nil => simp
  | cons c r =>
    have h1 : c ≠ '\'' := fun e => hq1 (by simp [e])
    have h2 : c ≠ '"' := fun e => hq2 (by simp [e])
    simp [h1, h2]

theorem stripQuotes_quoted (q : Char) (hq : q = '\'' ∨ q = '"') (n : Str) : stripQuotes (q :: (n ++ [q])) = n := by
  unfold stripQuotes
  have hl : (q :: (n ++ [q])).getLast? = some q := by
    rw [show q :: (n ++ [q]) = (q :: n) ++ [q] from rfl, List.getLast?_concat]
  rcases hq with rfl | rfl <;> simp [hl]

theorem trimSpace_quoted (q : Char) (hq : isSpace q = false) (n : Str) : trimSpace (q :: (n ++ [q])) = q :: (n ++ [q]) := by
  apply trimSpace_of_ends
  · intro c hc; simp at hc; subst hc; exact hq
  · intro c hc
    have : (q :: (n ++ [q])).getLast? = some q := by
      rw [show q :: (n ++ [q]) = (q :: n) ++ [q] from rfl, List.getLast?_concat]
    rw [this] at hc; simp at hc; subst hc; exact hq

/-- a bracketed step (bare or quoted) is rewritten to its dotted form -/
theorem rewriteBrackets_bracket (form : StepForm) (n rest : Str) (f : Nat) (hn : CleanName n) (hform : form ≠ .dot) :
    rewriteBrackets (f + 1) (writeStep form n ++ rest) = '.' :: (n ++ rewriteBrackets f rest) := by
  have hnc : ']' ∉ n := clean_mem_ne hn ']' (by decide)
  have hne : (n != []) = true := by simpa using hn.1
  cases form with
  | dot => exact absurd rfl hform
  | bracket =>
    have e : writeStep .bracket n ++ rest = '[' :: (n ++ ']' :: rest) := by simp [writeStep]
    rw [e, rewriteBrackets_open f n rest hnc, trimSpace_clean hn, stripQuotes_clean hn]
    simp [hne]
  | single =>
    have e : writeStep .single n ++ rest = '[' :: (('\'' :: (n ++ ['\''])) ++ ']' :: rest) := by simp [writeStep]
    rw [e, rewriteBrackets_open f _ rest (by simp [hnc]), trimSpace_quoted '\'' (by decide), stripQuotes_quoted '\'' (Or.inl rfl)]
    simp [hne]
  | double =>
    have e : writeStep .double n ++ rest = '[' :: (('"' :: (n ++ ['"'])) ++ ']' :: rest) := by simp [writeStep]
    rw [e, rewriteBrackets_open f _ rest (by simp [hnc]), trimSpace_quoted '"' (by decide), stripQuotes_quoted '"' (Or.inr rfl)]
    simp [hne]

/-- THE REWRITING TURNS EVERY FORM INTO THE DOTTED FORM (with enough fuel: one unit per character) -/
theorem rewriteBrackets_steps : ∀ (steps : List (StepForm × Str)) (f : Nat), (∀ s ∈ steps, CleanName s.2) → (writeSteps steps).length ≤ f →
    rewriteBrackets f (writeSteps steps) = dotted steps
  | [], f, _, _ => by cases f <;> simp [writeSteps, dotted, rewriteBrackets]
  | (form, n) :: r, f, h, hf => by
    have hn : CleanName n := h (form, n) (by simp)
    have hr : ∀ s ∈ r, CleanName s.2 := fun s hs => h s (by simp [hs])
    simp only [writeSteps, List.length_append] at hf
    by_cases hd : form = .dot
    · subst hd
      have hb : '[' ∉ ('.' :: n) := by
        intro e
        simp only [List.mem_cons] at e
        rcases e with e | e
        · cases e
        · exact clean_mem_ne hn '[' (by decide) e
      have hlen : (writeStep .dot n).length = ('.' :: n).length := rfl
      obtain ⟨g, hg⟩ : ∃ g, f = g + ('.' :: n).length := ⟨f - ('.' :: n).length, by rw [hlen] at hf; omega⟩
      subst hg
      show rewriteBrackets (g + ('.' :: n).length) (('.' :: n) ++ writeSteps r) = dotted ((StepForm.dot, n) :: r)
      rw [rewriteBrackets_prefix ('.' :: n) (writeSteps r) g hb, rewriteBrackets_steps r g hr (by rw [hlen] at hf; omega)]
      simp [dotted]
    · have hpos : 1 ≤ (writeStep form n).length := by cases form <;> simp [writeStep]
      obtain ⟨g, hg⟩ : ∃ g, f = g + 1 := ⟨f - 1, by omega⟩
      subst hg
      show rewriteBrackets (g + 1) (writeStep form n ++ writeSteps r) = dotted ((form, n) :: r)
      rw [rewriteBrackets_bracket form n (writeSteps r) g hn hd, rewriteBrackets_steps r g hr (by omega)]
      simp [dotted]

/-! ### splitting at the dots -/

theorem split_dotted : ∀ (steps : List (StepForm × Str)) (head : Str), '.' ∉ head → (∀ s ∈ steps, CleanName s.2) →
    splitChar '.' (head ++ dotted steps) = head :: steps.map (·.2)
  | [], head, hh, _ => by simp [dotted, splitChar_no_sep '.' head hh]
  | (form, n) :: r, head, hh, h => by
    have hn : CleanName n := h (form, n) (by simp)
    simp only [dotted, List.map_cons]
    show splitChar '.' (head ++ '.' :: (n ++ dotted r)) = _
    rw [splitChar_append_sep '.' head _ hh]
    rw [split_dotted r n (clean_mem_ne hn '.' (by decide)) (fun s hs => h s (by simp [hs]))]

theorem writeSteps_no_bracket : ∀ (steps : List (StepForm × Str)), '[' ∉ writeSteps steps → writeSteps steps = dotted steps
  | [], _ => rfl
  | (form, n) :: r, h => by
    simp only [writeSteps, List.mem_append, not_or] at h
    cases form with
    | dot => simp only [writeSteps, writeStep, dotted, List.cons_append]; rw [writeSteps_no_bracket r h.2]
    | bracket => exact absurd (by simp [writeStep]) h.1
    | single => exact absurd (by simp [writeStep]) h.1
    | double => exact absurd (by simp [writeStep]) h.1

theorem writeStep_chars (form : StepForm) (n : Str) (c : Char) (hc : c ∈ writeStep form n) : c ∈ n ∨ c ∈ ['.', '[', ']', '\'', '"'] := by
  cases form <;> simp [writeStep] at hc ⊢ <;> grind

theorem writeSteps_no_space : ∀ (steps : List (StepForm × Str)), (∀ s ∈ steps, CleanName s.2) → ∀ c ∈ writeSteps steps, isSpace c = false
  | [], _, c, hc => by simp [writeSteps] at hc
  | (form, n) :: r, h, c, hc => by
    have hn : CleanName n := h (form, n) (by simp)
    simp only [writeSteps, List.mem_append] at hc
    rcases hc with hc | hc
    · rcases writeStep_chars form n c hc with h1 | h1
      · exact clean_no_space hn c h1
      · simp only [List.mem_cons, List.not_mem_nil, or_false] at h1
        rcases h1 with rfl | rfl | rfl | rfl | rfl <;> decide
    · exact writeSteps_no_space r (fun s hs => h s (by simp [hs])) c hc

/-- PATH SYNTAX. For every head name and every list of further steps — each written as `.name`, `[name]`, `['name']` or `["name"]`, names
    free of separators, brackets, quotes and white space — `splitPath` of the path text is exactly the list of names, in order. -/
theorem splitPath_reads_steps (head : Str) (steps : List (StepForm × Str)) (hh : CleanName head) (hs : ∀ s ∈ steps, CleanName s.2) :
    splitPath (head ++ writeSteps steps) = head :: steps.map (·.2) := by
  have hnosp : ∀ c ∈ head ++ writeSteps steps, isSpace c = false := by
    intro c hc
    rcases List.mem_append.mp hc with hc | hc
    · exact clean_no_space hh c hc
    · exact writeSteps_no_space steps hs c hc
  have htrim : trimSpace (head ++ writeSteps steps) = head ++ writeSteps steps := by
    apply trimSpace_of_ends
    · intro c hc; exact hnosp c (List.mem_of_head? hc)
    · intro c hc; exact hnosp c (List.mem_of_getLast? hc)
  have hne : (head ++ writeSteps steps == []) = false := by
    cases head with
    | nil => exact absurd rfl hh.1
    | cons c r => rfl
  have hb : '[' ∉ head := clean_mem_ne hh '[' (by decide)
  have hdots : (if (head ++ writeSteps steps).contains '[' then rewriteBrackets ((head ++ writeSteps steps).length + 1) (head ++ writeSteps steps) else head ++ writeSteps steps)
      = head ++ dotted steps := by
    split
    · have e : (head ++ writeSteps steps).length + 1 = ((writeSteps steps).length + 1) + head.length := by simp; omega
      rw [e, rewriteBrackets_prefix head (writeSteps steps) _ hb, rewriteBrackets_steps steps _ hs (by omega)]
    · rename_i hc
      have : '[' ∉ writeSteps steps := by
        intro e; exact hc (by simp [e])
      rw [writeSteps_no_bracket steps this]
  unfold splitPath
  simp only [htrim, hne, Bool.false_eq_true, ↓reduceIte, hdots]
  rw [split_dotted steps head (clean_mem_ne hh '.' (by decide)) hs]
  have hall : ∀ x ∈ head :: steps.map (·.2), CleanName x := by
    intro x hx
    simp only [List.mem_cons, List.mem_map] at hx
    rcases hx with rfl | ⟨s, hs', rfl⟩
    · exact hh
    · exact hs s hs'
  have hmap : ∀ (l : List Str), (∀ x ∈ l, CleanName x) → l.map trimSpace = l := by
    intro l hl
    induction l with
    | nil => rfl
    | cons x r ih => rw [List.map_cons, trimSpace_clean (hl x (by simp)), ih (fun y hy => hl y (by simp [hy]))]
  have hmap := hmap _ hall
  rw [hmap]
  apply List.filter_eq_self.mpr
  intro x hx
  simpa using (hall x hx).1

/-- FROM THE TEXT OF A PATH TO THE ELEMENT GO INDEXING REACHES. A path with at least one further step, written in any mix of the accepted
    forms, whose head names a non-nil value `v`, resolves to what iterated Go indexing from `v` along the step names reaches — and reports
    absence exactly where that indexing stops (missing key, index out of range, nil, unexported field). -/
theorem path_text_reaches_go_element (s : Stack) (head : Str) (steps : List (StepForm × Str)) (v : Val) (hh : CleanName head)
    (hs : ∀ st ∈ steps, CleanName st.2) (hsteps : steps ≠ []) (hl : s.lookup goodCfg head = .ok (some v)) (hv : v ≠ .nil) :
    resolve goodCfg s (head ++ writeSteps steps) = .ok (goWalk v (steps.map (·.2))) := by
  have hany : containsAny (head ++ writeSteps steps) ['.', '['] = true := by
    cases steps with
    | nil => exact absurd rfl hsteps
    | cons st r =>
      obtain ⟨form, n⟩ := st
      have : ∃ c, c ∈ head ++ writeSteps ((form, n) :: r) ∧ (c = '.' ∨ c = '[') := by
        cases form
        · exact ⟨'.', by simp [writeSteps, writeStep], Or.inl rfl⟩
        · exact ⟨'[', by simp [writeSteps, writeStep], Or.inr rfl⟩
        · exact ⟨'[', by simp [writeSteps, writeStep], Or.inr rfl⟩
        · exact ⟨'[', by simp [writeSteps, writeStep], Or.inr rfl⟩
      obtain ⟨c, hc, hcc⟩ := this
      unfold containsAny
      simp only [List.any_eq_true]
      exact ⟨c, hc, by rcases hcc with rfl | rfl <;> simp⟩
  unfold resolve
  simp only [hany, Bool.not_true, Bool.false_eq_true, ↓reduceIte, splitPath_reads_steps head steps hh hs, hl]
  cases v with
  | nil => exact absurd rfl hv
  | _ => exact walkPath_eq_goWalk _ _ (by
      intro p hp
      simp only [List.mem_map] at hp
      obtain ⟨st, hst, rfl⟩ := hp
      exact (hs st hst).1)

/-! non-vacuity: a path mixing all four forms -/
example : splitPath "shop.items[0]['na-me'][\"k\"].x".toList = ["shop".toList, "items".toList, "0".toList, "na-me".toList, "k".toList, "x".toList] := by decide

end Vuego.Props.C17
