/-
C01, part (b), repeated placeholders — the same `{{ e }}` written twice in one string is evaluated once PER OCCURRENCE, each against the
text the template author wrote: what the first occurrence inserted is not input of the second.
-/
import Vuego.Props.C01Sinks
namespace Vuego.Props.C01
open Go Vuego

theorem hasPrefix_two_ne (c a : Char) (s : Str) (h : c ≠ a) : hasPrefix (c :: s) [a, a] = false := by
  simp [hasPrefix, h]

/-- the first doubled character after a run that does not contain the character at all -/
theorem index_after_run (a : Char) : ∀ (x rest : Str), (∀ c ∈ x, c ≠ a) → index (x ++ a :: a :: rest) [a, a] = some x.length
  | [], rest, _ => by simp [index, hasPrefix]
  | c :: x, rest, h => by
    have hc : c ≠ a := h c (by simp)
    have ih := index_after_run a x rest (fun d hd => h d (by simp [hd]))
    simp only [List.cons_append, index, hasPrefix_two_ne c a _ hc, ih]
    simp

/-- a run without the character holds no doubled occurrence of it -/
theorem index_none_of_run (a : Char) : ∀ x : Str, (∀ c ∈ x, c ≠ a) → index x [a, a] = none
  | [], _ => by simp [index]
  | c :: x, h => by
    have hc : c ≠ a := h c (by simp)
    have ih := index_none_of_run a x (fun d hd => h d (by simp [hd]))
    simp only [index, hasPrefix_two_ne c a _ hc, ih]
    simp

/-- ONE placeholder between brace-free neighbours: the neighbours are copied, the value's string form stands where the placeholder stood -/
theorem single_placeholder (P : Params) (s : Stack) (f : Nat) (pre e post : Str) (v : Val)
    (hpre : ∀ c ∈ pre, c ≠ '{') (he : ∀ c ∈ e, c ≠ '}') (hpost : ∀ c ∈ post, c ≠ '{')
    (hv : evalMustache P s (trimExpr e) = .ok v) :
    interpolateAux P s (f + 2) (pre ++ '{' :: '{' :: (e ++ '}' :: '}' :: post)) = .ok (pre ++ mustachePiece v ++ post) := by
  have h1 := index_after_run '{' pre (e ++ '}' :: '}' :: post) hpre
  have h2 : index ((pre ++ '{' :: '{' :: (e ++ '}' :: '}' :: post)).drop (pre.length + 2)) ['}', '}'] = some e.length := by
    have : (pre ++ '{' :: '{' :: (e ++ '}' :: '}' :: post)).drop (pre.length + 2) = e ++ '}' :: '}' :: post := by
      rw [List.drop_append]; simp
    rw [this]; exact index_after_run '}' e post he
  have hdrop : (pre ++ '{' :: '{' :: (e ++ '}' :: '}' :: post)).drop (pre.length + 2) = e ++ '}' :: '}' :: post := by
    rw [List.drop_append]; simp
  have hv' : evalMustache P s (trimExpr (((pre ++ '{' :: '{' :: (e ++ '}' :: '}' :: post)).drop (pre.length + 2)).take e.length)) = .ok v := by
    rw [hdrop]; simpa using hv
  rw [interpolate_step P s (f + 1) _ pre.length e.length v h1 h2 hv', hdrop]
  have hrest : (e ++ '}' :: '}' :: post).drop (e.length + 2) = post := by
    rw [List.drop_append]; simp
  rw [hrest, interpolate_no_mustache P s f post (index_none_of_run '{' post hpost)]
  simp

/-- the same placeholder TWICE: each occurrence is replaced by the value, the text between them is copied — the value inserted for the
    first occurrence (whatever it contains: braces, the expression's own text) is no part of what is scanned for the second -/
theorem repeated_placeholder (P : Params) (s : Stack) (f : Nat) (pre e mid post : Str) (v : Val)
    (hpre : ∀ c ∈ pre, c ≠ '{') (he : ∀ c ∈ e, c ≠ '}') (hmid : ∀ c ∈ mid, c ≠ '{') (hpost : ∀ c ∈ post, c ≠ '{')
    (hv : evalMustache P s (trimExpr e) = .ok v) :
    interpolateAux P s (f + 3) (pre ++ '{' :: '{' :: (e ++ '}' :: '}' :: (mid ++ '{' :: '{' :: (e ++ '}' :: '}' :: post)))) =
      .ok (pre ++ mustachePiece v ++ (mid ++ mustachePiece v ++ post)) := by
  have h1 := index_after_run '{' pre (e ++ '}' :: '}' :: (mid ++ '{' :: '{' :: (e ++ '}' :: '}' :: post))) hpre
  have hdrop : (pre ++ '{' :: '{' :: (e ++ '}' :: '}' :: (mid ++ '{' :: '{' :: (e ++ '}' :: '}' :: post)))).drop (pre.length + 2)
      = e ++ '}' :: '}' :: (mid ++ '{' :: '{' :: (e ++ '}' :: '}' :: post)) := by
    rw [List.drop_append]; simp
  have h2 : index ((pre ++ '{' :: '{' :: (e ++ '}' :: '}' :: (mid ++ '{' :: '{' :: (e ++ '}' :: '}' :: post)))).drop (pre.length + 2)) ['}', '}'] = some e.length := by
    rw [hdrop]; exact index_after_run '}' e _ he
  have hv' : evalMustache P s (trimExpr (((pre ++ '{' :: '{' :: (e ++ '}' :: '}' :: (mid ++ '{' :: '{' :: (e ++ '}' :: '}' :: post)))).drop (pre.length + 2)).take e.length)) = .ok v := by
    rw [hdrop]; simpa using hv
  rw [interpolate_step P s (f + 2) _ pre.length e.length v h1 h2 hv', hdrop]
  have hrest : (e ++ '}' :: '}' :: (mid ++ '{' :: '{' :: (e ++ '}' :: '}' :: post))).drop (e.length + 2) = mid ++ '{' :: '{' :: (e ++ '}' :: '}' :: post) := by
    rw [List.drop_append]; simp
  rw [hrest, single_placeholder P s f mid e post v hmid he hpost hv]
  simp

/-- the value may itself look like a placeholder: nothing changes (the hypothesis on `v` is only that the expression evaluates to it) -/
example (P : Params) (s : Stack) (hv : evalMustache P s (trimExpr (S " v ")) = .ok (.str (S "{{ secret }}"))) :
    interpolateAux P s 3 (S "a {{ v }} b {{ v }} c") = .ok (S "a {{ secret }} b {{ secret }} c") := by
  have := repeated_placeholder P s 0 (S "a ") (S " v ") (S " b ") (S " c") (.str (S "{{ secret }}")) (by decide) (by decide) (by decide) (by decide) hv
  simpa [S, mustachePiece, Val.sprint] using this

end Vuego.Props.C01
