import Vuego.Lemmas.RenderTok
namespace Vuego
open Go Html

/-! ### well-formed evaluated DOM, expected token stream -/

mutual
/-- Names come from a parser (no blanks, `/`, `>`, `=`, lower case); the stated exemptions are excluded:
    no `<template>`, no raw-text element, no evaluated v-html / v-text content attribute. -/
def WFNode : Node → Prop
  | .text _ => True
  | .elem tag attrs kids =>
    WFTag tag ∧ tag ≠ sTemplate ∧ isRawTextTag tag = false ∧ contentAttrs attrs = ([], []) ∧
      (∀ kv ∈ visibleAttrs attrs, WFAttrName kv.1) ∧ WFList kids
  | .comment _ => True
  | .doctype d => '>' ∉ d
def WFList : List Node → Prop
  | [] => True
  | n :: r => WFNode n ∧ WFList r
end

mutual
/-- what an HTML5 tokenizer must find in the serialiser's output: one start tag per element with exactly its visible
    attribute names and *decoded* values, its end tag, and text as characters -/
def toksNode (indent : Nat) : Node → List Tok
  | .text d => if blankText d then [] else (spaces indent ++ d).map .ch
  | .elem tag attrs kids =>
    match kidShape kids with
    | .none => (spaces indent).map .ch ++ [.startTag tag (visibleAttrs attrs) false, .endTag tag, .ch '\n']
    | .oneText d => (spaces indent).map .ch ++ [.startTag tag (visibleAttrs attrs) false] ++ d.map .ch ++ [.endTag tag, .ch '\n']
    | .many =>
      (spaces indent).map .ch ++ [.startTag tag (visibleAttrs attrs) false, .ch '\n'] ++
        toksList (indent + 2) kids ++ (spaces indent).map .ch ++ [.endTag tag, .ch '\n']
  | .comment _ => []
  | .doctype _ => if Generated.rendersDoctype then [.comment, .ch '\n'] else []
def toksList (indent : Nat) : List Node → List Tok
  | [] => []
  | n :: r => toksNode indent n ++ toksList indent r
end

theorem run_tail (tag : Str) (ht : WFTag tag) :
    run .data (['<', '/'] ++ tag ++ ['>', '\n']) = (.data, [.endTag tag, .ch '\n']) := by
  have e : ['<', '/'] ++ tag ++ ['>', '\n'] = ('<' :: '/' :: (tag ++ ['>'])) ++ ['\n'] := by simp
  rw [e, run_append, run_end_tag tag ht, run_singleton]
  simp [step, stepData]

/-- the hypotheses about the regenerated leaf functions that the tree theorem needs -/
structure EscapesOnce : Prop where
  attr : ∀ v, Generated.escapeAttrValue v = escape v
  text : ∀ d, renderTextData false d = escape d

theorem rawFalse_of_wfTag {tag : Str} (h : isRawTextTag tag = false) : isRawTextTag tag = false := h

theorem run_bogus_chars (s : Str) (h : '>' ∉ s) : run .bogus s = (.bogus, []) := by
  induction s with
  | nil => rfl
  | cons c r ih =>
    simp only [List.mem_cons, not_or] at h
    rw [run_cons]
    have : step .bogus c = (.bogus, []) := by
      have hc : c ≠ '>' := fun e => h.1 e.symm
      simp [step, hc]
    rw [this, ih h.2]
    rfl

theorem run_doctype (d : Str) (h : '>' ∉ d) :
    run .data (sDoctypeOpen ++ d ++ ['>', '\n']) = (.data, [.comment, .ch '\n']) := by
  have e : sDoctypeOpen ++ d ++ ['>', '\n'] = ['<'] ++ (['!'] ++ (("DOCTYPE ".toList ++ d) ++ (['>'] ++ ['\n']))) := by
    simp [sDoctypeOpen]
  have hb : '>' ∉ ("DOCTYPE ".toList ++ d) := by
    simp only [List.mem_append, not_or]
    exact ⟨by decide, h⟩
  have r1 : run .data ['<'] = (.tagOpen, []) := by decide
  have r2 : run .tagOpen ['!'] = (.bogus, []) := by decide
  have r3 : run .bogus ['>'] = (.data, [.comment]) := by decide
  have r4 : run .data ['\n'] = (.data, [.ch '\n']) := by decide
  rw [e, run_append, r1]; simp only []
  rw [run_append, r2]; simp only []
  rw [run_append, run_bogus_chars _ hb]; simp only []
  rw [run_append, r3]; simp only []
  rw [r4]
  rfl

theorem run_data_append {a b : Str} {ta tb : List Tok} (ha : run .data a = (.data, ta)) (hb : run .data b = (.data, tb)) :
    run .data (a ++ b) = (.data, ta ++ tb) := by
  rw [run_append, ha]; simp only []; rw [hb]

theorem run_open (E : EscapesOnce) (tag : Str) (attrs : List Attr) (ht : WFTag tag) (hattrs : ∀ kv ∈ visibleAttrs attrs, WFAttrName kv.1) (i : Nat) :
    run .data (spaces i ++ ('<' :: tag ++ renderAttrs attrs ++ ['>'])) =
      (.data, (spaces i).map .ch ++ [.startTag tag (visibleAttrs attrs) false]) :=
  run_data_append (run_data_spaces i) (run_start_tag E.attr tag attrs ht hattrs)

theorem run_block (E : EscapesOnce) (tag : Str) (attrs : List Attr) (ht : WFTag tag) (hattrs : ∀ kv ∈ visibleAttrs attrs, WFAttrName kv.1)
    (indent : Nat) (body : Str) (tb : List Tok) (hb : run .data body = (.data, tb)) :
    run .data (spaces indent ++ '<' :: tag ++ renderAttrs attrs ++ ['>', '\n'] ++ body ++ spaces indent ++ ['<', '/'] ++ tag ++ ['>', '\n']) =
      (.data, (spaces indent).map .ch ++ [.startTag tag (visibleAttrs attrs) false, .ch '\n'] ++ tb ++ (spaces indent).map .ch ++ [.endTag tag, .ch '\n']) := by
  have e : spaces indent ++ '<' :: tag ++ renderAttrs attrs ++ ['>', '\n'] ++ body ++ spaces indent ++ ['<', '/'] ++ tag ++ ['>', '\n'] =
      (spaces indent ++ ('<' :: tag ++ renderAttrs attrs ++ ['>'])) ++ (['\n'] ++ (body ++ (spaces indent ++ (['<', '/'] ++ tag ++ ['>', '\n'])))) := by simp
  have hn : run .data ['\n'] = (.data, [.ch '\n']) := by decide
  rw [e]
  have := run_data_append (run_open E tag attrs ht hattrs indent)
    (run_data_append hn (run_data_append hb (run_data_append (run_data_spaces indent) (run_tail tag ht))))
  rw [this]
  simp

mutual
theorem run_renderNode (E : EscapesOnce) (n : Node) (h : WFNode n) (parent : Str) (hp : isRawTextTag parent = false) (indent : Nat) :
    run .data (renderNode parent indent n) = (.data, toksNode indent n) :=
  match n, h with
  | .text d, _ => by
    simp only [renderNode, toksNode]
    split
    · rfl
    · rw [hp, E.text, run_append, run_data_spaces, run_data_escape]
      simp
  | .comment _, _ => rfl
  | .doctype d, h => by
    simp only [WFNode] at h
    simp only [renderNode, toksNode]
    split
    · exact run_doctype d h
    · rfl
  | .elem tag attrs kids, h => by
    simp only [WFNode] at h
    obtain ⟨ht, hnt, hraw, hca, hattrs, hkids⟩ := h
    have hnt' : (tag == sTemplate) = false := by simpa using hnt
    have hl := run_renderList E kids hkids tag hraw (indent + 2)
    simp only [renderNode, hca, hnt', toksNode]
    simp only [bne_self_eq_false, Bool.or_self, Bool.false_eq_true, ↓reduceIte, Bool.false_and]
    cases kidShape kids with
    | none =>
      simp only []
      have e : spaces indent ++ '<' :: tag ++ renderAttrs attrs ++ ['>', '<', '/'] ++ tag ++ ['>', '\n'] =
          (spaces indent ++ ('<' :: tag ++ renderAttrs attrs ++ ['>'])) ++ (['<', '/'] ++ tag ++ ['>', '\n']) := by simp
      rw [e, run_data_append (run_open E tag attrs ht hattrs indent) (run_tail tag ht)]
      simp
    | oneText d =>
      simp only []
      have e : spaces indent ++ '<' :: tag ++ renderAttrs attrs ++ ['>'] ++ renderTextData (isRawTextTag tag) d ++ ['<', '/'] ++ tag ++ ['>', '\n'] =
          (spaces indent ++ ('<' :: tag ++ renderAttrs attrs ++ ['>'])) ++ (escape d ++ (['<', '/'] ++ tag ++ ['>', '\n'])) := by
        rw [hraw, E.text]; simp
      rw [e, run_data_append (run_open E tag attrs ht hattrs indent) (run_data_append (run_data_escape d) (run_tail tag ht))]
      simp
    | many =>
      simp only []
      exact run_block E tag attrs ht hattrs indent _ _ hl
theorem run_renderList (E : EscapesOnce) (ns : List Node) (h : WFList ns) (parent : Str) (hp : isRawTextTag parent = false) (indent : Nat) :
    run .data (renderList parent indent ns) = (.data, toksList indent ns) :=
  match ns, h with
  | [], _ => rfl
  | n :: r, h => by
    simp only [WFList] at h
    simp only [renderList, toksList]
    rw [run_append, run_renderNode E n h.1 parent hp indent, run_renderList E r h.2 parent hp indent]
end

end Vuego
