/-
No crash outcome, part 2: the template evaluator. With `GoodParams` (reflect guards as read from the source, an expression evaluator that
does not crash) none of the nine mutually recursive evaluator functions returns `.panic` or `.hang`, for every world, context, state,
node list and fuel.
-/
import Vuego.Lemmas.NoCrash
set_option maxRecDepth 2000
namespace Vuego
open Go

/-- case split on a result known not to crash: the crash cases are closed, `err`/`fuel` (and `ok`, when trivial) by `rfl` -/
macro "safe_cases " r:ident h:ident : tactic =>
  `(tactic| (cases $r:ident <;> first | exact ($h).not_panic.elim | exact ($h).not_hang.elim | rfl | skip))

theorem safe_bindE {α β : Type} (r : Res α) (k : α → R β) (hr : Safe r) (hk : ∀ a, Safe (k a)) : Safe (bindE r k) := by
  safe_cases r hr
  case ok a => exact hk a

theorem safe_bindR {α β : Type} (r : R α) (k : α → St → R β) (hr : Safe r) (hk : ∀ a st, Safe (k a st)) : Safe (bindR r k) := by
  safe_cases r hr
  case ok a => exact hk a.1 a.2

theorem safe_prepend (res : List Node) (r : R (List Node)) (hr : Safe r) : Safe (prepend res r) :=
  safe_bindR r _ hr (fun _ _ => rfl)

theorem safe_foldl {α β : Type} (f : Res β → α → Res β) (hf : ∀ acc a, Safe acc → Safe (f acc a)) :
    ∀ (l : List α) (acc : Res β), Safe acc → Safe (l.foldl f acc)
  | [], _, h => h
  | a :: l, acc, h => by simp only [List.foldl_cons]; exact safe_foldl f hf l _ (hf acc a h)

theorem safe_parseFor (s : Str) : Safe (parseFor s) := by
  unfold parseFor
  simp only []
  repeat' split
  all_goals rfl

/-! ### chains -/

theorem safe_chainScan (cond : Str → Res Bool) (hc : ∀ e, Safe (cond e)) : ∀ (ns : List Node) (idx last : Nat), Safe (chainScan cond ns idx last)
  | [], _, _ => rfl
  | n :: r, idx, last => by
    cases n with
    | elem t attrs k =>
      simp only [chainScan]
      split
      · rfl
      · split
        · have h := hc (getAttr attrs (S "v-else-if"))
          generalize cond (getAttr attrs (S "v-else-if")) = c at h
          safe_cases c h
          case ok b =>
            cases b
            · exact safe_chainScan cond hc r _ _
            · rfl
        · split
          · rfl
          · exact safe_chainScan cond hc r _ _
    | text d => simp only [chainScan]; exact safe_chainScan cond hc r _ _
    | comment d => simp only [chainScan]; exact safe_chainScan cond hc r _ _
    | doctype d => simp only [chainScan]; exact safe_chainScan cond hc r _ _

theorem safe_chainSelect (cond : Str → Res Bool) (hc : ∀ e, Safe (cond e)) (vIf : Str) (rest : List Node) : Safe (chainSelect cond vIf rest) := by
  unfold chainSelect
  split
  · rfl
  · have h := hc vIf
    generalize cond vIf = c at h
    safe_cases c h
    case ok b =>
      cases b
      · exact safe_chainScan cond hc rest _ _
      · rfl

/-! ### attributes -/

theorem safe_evalAttributes (P : Params) (g : GoodParams P) (s : Stack) (attrs : List Attr) : Safe (evalAttributes P s attrs) := by
  unfold evalAttributes
  simp only []
  generalize hF : List.foldl _ (Res.ok (([] : List Attr), ([] : List Str), ([] : Scope))) attrs = first
  have hs : Safe first := by
    rw [← hF]
    apply safe_foldl
    · intro acc a hacc
      safe_cases acc hacc
      case ok x =>
        obtain ⟨newAttrs, order, results⟩ := x
        simp only []
        have h1 := safe_wrapErr (S "error evaluating attr " ++ boundNameOf a.1 ++ S ": ") _ (safe_evalBoundAttribute P g s (boundNameOf a.1) (trimSpace a.2))
        have h2 := safe_interpolate P g s (trimSpace a.2)
        generalize wrapErr (S "error evaluating attr " ++ boundNameOf a.1 ++ S ": ") (evalBoundAttribute P s (boundNameOf a.1) (trimSpace a.2)) = r1 at h1
        generalize interpolate P s (trimSpace a.2) = r2 at h2
        split
        · rfl
        · split
          · safe_cases r1 h1
            case ok v => simp only []; split <;> rfl
          · split
            · safe_cases r2 h2
            · rfl
    · rfl
  safe_cases first hs

theorem safe_evalVContent (P : Params) (g : GoodParams P) (s : Stack) (attrs : List Attr) (d ck : Str) (esc : Bool) :
    Safe (evalVContent P s attrs d ck esc) := by
  unfold evalVContent
  simp only []
  split
  · rfl
  · have h1 := safe_resolve P.cfg g.cfg s (getAttr attrs d)
    have h2 := safe_wrapErr (S "in expression '{{ " ++ getAttr attrs d ++ S " }}': ") _ (safe_evalPipe P g s (parsePipeExpr (getAttr attrs d)))
    generalize s.resolve P.cfg (getAttr attrs d) = r1 at h1
    generalize wrapErr (S "in expression '{{ " ++ getAttr attrs d ++ S " }}': ") (evalPipe P s (parsePipeExpr (getAttr attrs d))) = r2 at h2
    safe_cases r1 h1
    case ok o =>
      cases o with
      | some v => rfl
      | none =>
        by_cases hr : routesToPipe (getAttr attrs d) = true
        · simp only [hr, ↓reduceIte]
          safe_cases r2 h2
        · simp only [hr]; rfl

theorem safe_evalVShow (P : Params) (g : GoodParams P) (s : Stack) (attrs : List Attr) : Safe (evalVShow P s attrs) := by
  unfold evalVShow
  simp only []
  split
  · rfl
  · have h := safe_evalCondition P g s (getAttr attrs (S "v-show"))
    generalize evalCondition P s (getAttr attrs (S "v-show")) = r at h
    safe_cases r h
    case ok b => cases b <;> rfl

theorem safe_elementPrologue (P : Params) (g : GoodParams P) (s : Stack) (attrs : List Attr) : Safe (elementPrologue P s attrs) := by
  unfold elementPrologue
  simp only []
  have h1 := safe_evalVContent P g s attrs (S "v-html") sVHtml false
  generalize evalVContent P s attrs (S "v-html") sVHtml false = r1 at h1
  safe_cases r1 h1
  case ok h =>
    simp only []
    have h2 := safe_evalVContent P g s (h.getD attrs) (S "v-text") sVText true
    generalize evalVContent P s (h.getD attrs) (S "v-text") sVText true = r2 at h2
    safe_cases r2 h2
    case ok t =>
      simp only []
      have h3 := safe_evalAttributes P g s (t.getD (h.getD attrs))
      generalize evalAttributes P s (t.getD (h.getD attrs)) = r3 at h3
      safe_cases r3 h3
      case ok x =>
        obtain ⟨attrs3, sc⟩ := x
        simp only []
        have h4 := safe_evalVShow P g s attrs3
        generalize evalVShow P s attrs3 = r4 at h4
        safe_cases r4 h4

theorem safe_setTemplateAttr (P : Params) (g : GoodParams P) (jd : Str → Option Val) (sk : Stack) (a : Attr) : Safe (setTemplateAttr P jd sk a) := by
  unfold setTemplateAttr
  simp only []
  split
  · rfl
  · split
    · split
      · rfl
      · have h1 := safe_evalPipe P g sk (parsePipeExpr (trimSpace a.2))
        have h2 := g.expr (trimSpace a.2) (sk.envMap P.cfg)
        have h3 := safe_resolve P.cfg g.cfg sk (trimSpace a.2)
        generalize evalPipe P sk (parsePipeExpr (trimSpace a.2)) = r1 at h1
        generalize P.exprEval (trimSpace a.2) (sk.envMap P.cfg) = r2 at h2
        generalize sk.resolve P.cfg (trimSpace a.2) = r3 at h3
        safe_cases r1 h1
        case err c m =>
          simp only []
          safe_cases r2 h2
          case err c' m' =>
            simp only []
            safe_cases r3 h3
            case ok o => cases o <;> rfl
    · split
      · split <;> rfl
      · rfl

theorem safe_setTemplateAttrs (P : Params) (g : GoodParams P) (jd : Str → Option Val) : ∀ (as : List Attr) (sk : Stack), Safe (setTemplateAttrs P jd as sk)
  | [], _ => rfl
  | a :: r, sk => by
    simp only [setTemplateAttrs]
    have h := safe_setTemplateAttr P g jd sk a
    generalize setTemplateAttr P jd sk a = x at h
    safe_cases x h
    case ok sk' => exact safe_setTemplateAttrs P g jd r sk'

/-! ### the evaluator, by induction on the fuel -/

structure SafeAt (W : World) (f : Nat) : Prop where
  list : ∀ ctx st ns, Safe (evalList W f ctx st ns)
  plain : ∀ ctx st tag attrs kids, Safe (evalPlain W f ctx st tag attrs kids)
  asElem : ∀ ctx st tag attrs kids, Safe (evalAsElement W f ctx st tag attrs kids)
  vfor : ∀ ctx st tag attrs kids rest, Safe (evalVFor W f ctx st tag attrs kids rest)
  for_ : ∀ ctx st tag attrs kids e, Safe (evalFor W f ctx st tag attrs kids e)
  items : ∀ ctx st tag attrs kids vars xs i, Safe (evalForItems W f ctx st tag attrs kids vars xs i)
  tmpl : ∀ ctx st attrs kids, Safe (evalTemplate W f ctx st attrs kids)
  incl : ∀ ctx st attrs kids vars, Safe (evalInclude W f ctx st attrs kids vars)
  slot : ∀ ctx st attrs kids, Safe (evalSlot W f ctx st attrs kids)

theorem safeAt_zero (W : World) : SafeAt W 0 where
  list := by intros; simp only [evalList]; rfl
  plain := by intros; simp only [evalPlain]; rfl
  asElem := by intros; simp only [evalAsElement]; rfl
  vfor := by intros; simp only [evalVFor]; rfl
  for_ := by intros; simp only [evalFor]; rfl
  items := by intros; simp only [evalForItems]; rfl
  tmpl := by intros; simp only [evalTemplate]; rfl
  incl := by intros; simp only [evalInclude]; rfl
  slot := by intros; simp only [evalSlot]; rfl

theorem safe_list_step (W : World) (g : GoodParams W.P) (f : Nat) (ih : SafeAt W f) : ∀ ctx st ns, Safe (evalList W (f + 1) ctx st ns) := by
  intro ctx st ns
  cases ns with
  | nil => simp only [evalList]; rfl
  | cons n rest =>
    cases n with
    | text d =>
      simp only [evalList]
      have h := safe_interpolate W.P g st.stack d
      generalize interpolate W.P st.stack d = r at h
      safe_cases r h
      case ok t => exact safe_prepend _ _ (ih.list _ _ _)
    | comment d => simp only [evalList]; exact safe_prepend _ _ (ih.list _ _ _)
    | doctype d => simp only [evalList]; exact safe_prepend _ _ (ih.list _ _ _)
    | elem tag attrs kids =>
      simp only [evalList]
      split
      · exact ih.list _ _ _
      · split
        · exact safe_prepend _ _ (ih.list _ _ _)
        · split
          · exact ih.list _ _ _
          · split
            · exact safe_bindR _ _ (ih.vfor _ _ _ _ _ _) (fun _ _ => safe_prepend _ _ (ih.list _ _ _))
            · split
              · apply safe_bindE _ _ (safe_chainSelect _ (fun e => safe_evalCondition W.P g _ e) _ _)
                intro ps
                split
                · exact ih.list _ _ _
                · split
                  · exact ih.list _ _ _
                  · exact safe_bindR _ _ (ih.asElem _ _ _ _ _) (fun _ _ => safe_prepend _ _ (ih.list _ _ _))
                · split
                  · split
                    · exact ih.list _ _ _
                    · exact safe_bindR _ _ (ih.asElem _ _ _ _ _) (fun _ _ => safe_prepend _ _ (ih.list _ _ _))
                  · exact ih.list _ _ _
              · split
                · exact safe_bindR _ _ (ih.slot _ _ _ _) (fun _ _ => safe_prepend _ _ (ih.list _ _ _))
                · split
                  · exact safe_bindR _ _ (ih.tmpl _ _ _ _) (fun _ _ => safe_prepend _ _ (ih.list _ _ _))
                  · exact safe_bindR _ _ (ih.plain _ _ _ _ _) (fun _ _ => safe_prepend _ _ (ih.list _ _ _))

theorem safe_plain_step (W : World) (g : GoodParams W.P) (f : Nat) (ih : SafeAt W f) :
    ∀ ctx st tag attrs kids, Safe (evalPlain W (f + 1) ctx st tag attrs kids) := by
  intro ctx st tag attrs kids
  simp only [evalPlain]
  apply safe_bindE _ _ (safe_elementPrologue W.P g _ _)
  intro pr
  split
  · rfl
  · exact safe_bindR _ _ (ih.list _ _ _) (fun _ _ => rfl)

theorem safe_asElem_step (W : World) (_g : GoodParams W.P) (f : Nat) (ih : SafeAt W f) :
    ∀ ctx st tag attrs kids, Safe (evalAsElement W (f + 1) ctx st tag attrs kids) := by
  intro ctx st tag attrs kids
  simp only [evalAsElement]
  split
  · exact ih.for_ _ _ _ _ _ _
  · split
    · exact ih.slot _ _ _ _
    · split
      · split
        · exact ih.tmpl _ _ _ _
        · exact ih.list _ _ _
      · exact ih.plain _ _ _ _ _

theorem safe_vfor_step (W : World) (_g : GoodParams W.P) (f : Nat) (ih : SafeAt W f) :
    ∀ ctx st tag attrs kids rest, Safe (evalVFor W (f + 1) ctx st tag attrs kids rest) := by
  intro ctx st tag attrs kids rest
  simp only [evalVFor]
  split
  · rfl
  · apply safe_bindR _ _ (ih.for_ _ _ _ _ _ _)
    intro loopNodes st1
    split
    · rfl
    · split
      · split
        · split
          · rfl
          · exact safe_bindR _ _ (ih.asElem _ _ _ _ _) (fun _ _ => rfl)
        · rfl
      · rfl

theorem safe_for_step (W : World) (g : GoodParams W.P) (f : Nat) (ih : SafeAt W f) :
    ∀ ctx st tag attrs kids e, Safe (evalFor W (f + 1) ctx st tag attrs kids e) := by
  intro ctx st tag attrs kids e
  simp only [evalFor]
  apply safe_bindE _ _ (safe_parseFor e)
  intro vc
  apply safe_bindE _ _ (safe_resolve W.P.cfg g.cfg _ _)
  intro coll
  split
  · exact ih.items _ _ _ _ _ _ _ _
  · exact ih.items _ _ _ _ _ _ _ _
  · rfl

theorem safe_items_step (W : World) (_g : GoodParams W.P) (f : Nat) (ih : SafeAt W f) :
    ∀ ctx st tag attrs kids vars xs i, Safe (evalForItems W (f + 1) ctx st tag attrs kids vars xs i) := by
  intro ctx st tag attrs kids vars xs i
  cases xs with
  | nil => simp only [evalForItems]; rfl
  | cons x xs =>
    simp only [evalForItems]
    split
    · rfl
    · exact safe_bindR _ _ (ih.list _ _ _) (fun _ _ => safe_prepend _ _ (ih.items _ _ _ _ _ _ _ _))

theorem safe_tmpl_step (W : World) (g : GoodParams W.P) (f : Nat) (ih : SafeAt W f) :
    ∀ ctx st attrs kids, Safe (evalTemplate W (f + 1) ctx st attrs kids) := by
  intro ctx st attrs kids
  simp only [evalTemplate]
  split
  · exact safe_bindE _ _ (safe_evalAttributes W.P g _ _) (fun _ => ih.incl _ _ _ _ _)
  · split
    · rfl
    · apply safe_bindE _ _ (safe_evalVContent W.P g _ _ _ _ _)
      intro h
      split
      · rfl
      · split
        · rfl
        · exact safe_bindE _ _ (safe_setTemplateAttrs W.P g _ _ _) (fun _ => ih.list _ _ _)

theorem safe_incl_step (W : World) (_g : GoodParams W.P) (f : Nat) (ih : SafeAt W f) :
    ∀ ctx st attrs kids vars, Safe (evalInclude W (f + 1) ctx st attrs kids vars) := by
  intro ctx st attrs kids vars
  simp only [evalInclude]
  split
  · rfl
  · split
    · rfl
    · split
      · rfl
      · exact safe_bindR _ _ (ih.list _ _ _) (fun _ _ => rfl)

theorem safe_slot_step (W : World) (_g : GoodParams W.P) (f : Nat) (ih : SafeAt W f) :
    ∀ ctx st attrs kids, Safe (evalSlot W (f + 1) ctx st attrs kids) := by
  intro ctx st attrs kids
  simp only [evalSlot]
  split
  · split
    · split
      · exact safe_bindR _ _ (ih.list _ _ _) (fun _ _ => rfl)
      · exact ih.list _ _ _
    · split
      · split
        · exact safe_bindR _ _ (ih.list _ _ _) (fun _ _ => rfl)
        · exact ih.list _ _ _
      · split
        · exact ih.list _ _ _
        · rfl
  · split
    · split
      · exact safe_bindR _ _ (ih.list _ _ _) (fun _ _ => rfl)
      · exact ih.list _ _ _
    · split
      · exact ih.list _ _ _
      · rfl

theorem safeAt_all (W : World) (g : GoodParams W.P) : ∀ f, SafeAt W f
  | 0 => safeAt_zero W
  | f + 1 =>
    have ih := safeAt_all W g f
    { list := safe_list_step W g f ih, plain := safe_plain_step W g f ih, asElem := safe_asElem_step W g f ih,
      vfor := safe_vfor_step W g f ih, for_ := safe_for_step W g f ih, items := safe_items_step W g f ih,
      tmpl := safe_tmpl_step W g f ih, incl := safe_incl_step W g f ih, slot := safe_slot_step W g f ih }

end Vuego
