import Vuego.Model.Overlay
namespace Vuego.Overlay
open Go

/-! ### Open -/

theorem openFrom_some {i : Nat} {c : Chain} {p : Str} {k : Nat} {e : Entry}
    (h : openFrom i c p = some (k, e)) :
    ∃ (j : Nat) (L : Layer), k = i + j ∧ c[j]? = some (some L) ∧ L.look p = some e ∧
      ∀ j' < j, ∀ L' : Layer, c[j']? = some (some L') → L'.look p = none := by
  induction c generalizing i with
  | nil => simp [openFrom] at h
  | cons x r ih =>
    cases x with
    | none =>
      simp only [openFrom] at h
      obtain ⟨j, L, hk, hj, hl, hb⟩ := ih h
      refine ⟨j + 1, L, by omega, by simpa using hj, hl, ?_⟩
      intro j' hj' L' hL'
      cases j' with
      | zero => simp at hL'
      | succ j'' => exact hb j'' (by omega) L' (by simpa using hL')
    | some L0 =>
      simp only [openFrom] at h
      cases hl0 : L0.look p with
      | some e0 =>
        simp only [hl0, Option.some.injEq, Prod.mk.injEq] at h
        refine ⟨0, L0, by omega, by simp, by rw [hl0, h.2], ?_⟩
        intro j' hj'; omega
      | none =>
        simp only [hl0] at h
        obtain ⟨j, L, hk, hj, hl, hb⟩ := ih h
        refine ⟨j + 1, L, by omega, by simpa using hj, hl, ?_⟩
        intro j' hj' L' hL'
        cases j' with
        | zero => simp at hL'; subst hL'; exact hl0
        | succ j'' => exact hb j'' (by omega) L' (by simpa using hL')

theorem openFrom_none {i : Nat} {c : Chain} {p : Str} (h : openFrom i c p = none) :
    ∀ (j : Nat) (L : Layer), c[j]? = some (some L) → L.look p = none := by
  induction c generalizing i with
  | nil => intro j L hj; simp at hj
  | cons x r ih =>
    intro j L hj
    cases x with
    | none =>
      simp only [openFrom] at h
      cases j with
      | zero => simp at hj
      | succ j' => exact ih h j' L (by simpa using hj)
    | some L0 =>
      simp only [openFrom] at h
      cases hl0 : L0.look p with
      | some e0 => simp [hl0] at h
      | none =>
        simp only [hl0] at h
        cases j with
        | zero => simp at hj; subst hj; exact hl0
        | succ j' => exact ih h j' L (by simpa using hj)

/-! ### ReadDir -/

theorem hasName_iff (m : List MEntry) (n : Str) : hasName m n = true ↔ ∃ e ∈ m, e.1 = n := by
  simp [hasName, List.any_eq_true]

def Names (m : List MEntry) : List Str := m.map (·.1)

theorem mem_names {m : List MEntry} {n : Str} : n ∈ Names m ↔ ∃ e ∈ m, e.1 = n := by
  simp [Names]

theorem addEntries_nodup (i : Nat) (m : List MEntry) (es : List (Str × Bool))
    (h : (Names m).Nodup) : (Names (addEntries i m es)).Nodup := by
  induction es generalizing m with
  | nil => simpa [addEntries]
  | cons x r ih =>
    obtain ⟨n, d⟩ := x
    simp only [addEntries]
    split
    · exact ih m h
    · rename_i hn
      apply ih
      simp only [Names, List.map_append, List.map_cons, List.map_nil]
      rw [List.nodup_append]
      refine ⟨h, by simp, ?_⟩
      intro a ha b hb
      simp at hb; subst hb
      intro hab; subst hab
      apply hn
      rw [hasName_iff]
      simpa [Names] using ha

theorem addEntries_prefix (i : Nat) (m : List MEntry) (es : List (Str × Bool)) :
    ∃ t, addEntries i m es = m ++ t ∧ ∀ e ∈ t, e.2.2 = i ∧ (e.1, e.2.1) ∈ es := by
  induction es generalizing m with
  | nil => exact ⟨[], by simp [addEntries], by simp⟩
  | cons x r ih =>
    obtain ⟨n, d⟩ := x
    simp only [addEntries]
    split
    · obtain ⟨t, ht, hp⟩ := ih m
      exact ⟨t, ht, fun e he => ⟨(hp e he).1, List.mem_cons_of_mem _ (hp e he).2⟩⟩
    · obtain ⟨t, ht, hp⟩ := ih (m ++ [(n, d, i)])
      refine ⟨(n, d, i) :: t, by simp [ht], ?_⟩
      intro e he
      simp only [List.mem_cons] at he
      rcases he with rfl | he
      · simp
      · exact ⟨(hp e he).1, List.mem_cons_of_mem _ (hp e he).2⟩

theorem addEntries_names (i : Nat) (m : List MEntry) (es : List (Str × Bool)) (n : Str) :
    n ∈ Names (addEntries i m es) ↔ n ∈ Names m ∨ ∃ d, (n, d) ∈ es := by
  induction es generalizing m with
  | nil => simp [addEntries]
  | cons x r ih =>
    obtain ⟨n0, d0⟩ := x
    simp only [addEntries]
    split
    · rename_i hn
      rw [ih]
      rw [hasName_iff] at hn
      constructor
      · rintro (h | ⟨d, hd⟩)
        · exact Or.inl h
        · exact Or.inr ⟨d, List.mem_cons_of_mem _ hd⟩
      · rintro (h | ⟨d, hd⟩)
        · exact Or.inl h
        · simp only [List.mem_cons, Prod.mk.injEq] at hd
          rcases hd with ⟨rfl, rfl⟩ | hd
          · exact Or.inl (mem_names.mpr hn)
          · exact Or.inr ⟨d, hd⟩
    · rw [ih]
      have hm : n ∈ Names (m ++ [(n0, d0, i)]) ↔ n ∈ Names m ∨ n = n0 := by
        simp [Names]
      rw [hm]
      constructor
      · rintro ((h | rfl) | ⟨d, hd⟩)
        · exact Or.inl h
        · exact Or.inr ⟨d0, List.mem_cons_self⟩
        · exact Or.inr ⟨d, List.mem_cons_of_mem _ hd⟩
      · rintro (h | ⟨d, hd⟩)
        · exact Or.inl (Or.inl h)
        · rw [List.mem_cons] at hd
          rcases hd with hd | hd
          · cases hd; exact Or.inl (Or.inr rfl)
          · exact Or.inr ⟨d, hd⟩

/-- the declarative listing of layer `j` at `p` -/
def listingAt (c : Chain) (j : Nat) (p : Str) : Option (List (Str × Bool)) :=
  match c[j]? with
  | some (some L) => layerReadDir L p
  | _ => none

/-- Invariant of the ReadDir loop, stated for the suffix `c` of the chain starting at layer index `i`. -/
structure RDInv (i : Nat) (full : Chain) (p : Str) (st : RD) : Prop where
  nodup : (Names st.merged).Nodup
  mem : ∀ n, n ∈ Names st.merged ↔ ∃ j < i, ∃ es, listingAt full j p = some es ∧ ∃ d, (n, d) ∈ es
  src : ∀ e ∈ st.merged, e.2.2 < i ∧ ∃ es, listingAt full e.2.2 p = some es ∧ (e.1, e.2.1) ∈ es ∧
          ∀ j < e.2.2, ∀ es', listingAt full j p = some es' → ∀ d, (e.1, d) ∉ es'
  found : st.found = true ↔ ∃ j < i, (listingAt full j p).isSome
  lastErr : st.lastErr = true ↔ ∃ j < i, ∃ L, full[j]? = some (some L) ∧ layerReadDir L p = none

theorem readDirLoop_inv (full : Chain) (p : Str) :
    ∀ (c : Chain) (i : Nat) (st : RD), full.drop i = c → RDInv i full p st →
      RDInv full.length full p (readDirLoop i c p st) := by
  intro c
  induction c with
  | nil =>
    intro i st hd hinv
    simp only [readDirLoop]
    have hi : full.length ≤ i := by
      have := congrArg List.length hd; simp at this; omega
    refine ⟨hinv.nodup, ?_, ?_, ?_, ?_⟩
    · intro n; rw [hinv.mem]
      constructor
      · rintro ⟨j, hj, es, hes, d⟩
        have : j < full.length := by
          unfold listingAt at hes
          cases hget : full[j]? with
          | none => simp [hget] at hes
          | some x => exact (List.getElem?_eq_some_iff.mp hget).1
        exact ⟨j, this, es, hes, d⟩
      · rintro ⟨j, hj, rest⟩; exact ⟨j, by omega, rest⟩
    · intro e he
      obtain ⟨h1, es, h2, h3, h4⟩ := hinv.src e he
      refine ⟨?_, es, h2, h3, h4⟩
      unfold listingAt at h2
      cases hget : full[e.2.2]? with
      | none => simp [hget] at h2
      | some x => exact (List.getElem?_eq_some_iff.mp hget).1
    · rw [hinv.found]
      constructor
      · rintro ⟨j, hj, hs⟩
        refine ⟨j, ?_, hs⟩
        unfold listingAt at hs
        cases hget : full[j]? with
        | none => simp [hget] at hs
        | some x => exact (List.getElem?_eq_some_iff.mp hget).1
      · rintro ⟨j, hj, hs⟩; exact ⟨j, by omega, hs⟩
    · rw [hinv.lastErr]
      constructor
      · rintro ⟨j, hj, L, hL, hn⟩
        exact ⟨j, (List.getElem?_eq_some_iff.mp hL).1, L, hL, hn⟩
      · rintro ⟨j, hj, rest⟩; exact ⟨j, by omega, rest⟩
  | cons x r ih =>
    intro i st hd hinv
    have hi : i < full.length := by
      have := congrArg List.length hd; simp at this; omega
    have hx : full[i]? = some x := by
      have : (full.drop i)[0]? = some x := by rw [hd]; rfl
      simpa using this
    have hd' : full.drop (i + 1) = r := by
      have : (full.drop i).drop 1 = r := by rw [hd]; rfl
      simpa [List.drop_drop, Nat.add_comm] using this
    cases x with
    | none =>
      simp only [readDirLoop]
      apply ih (i + 1) st hd'
      have hl : listingAt full i p = none := by simp [listingAt, hx]
      refine ⟨hinv.nodup, ?_, ?_, ?_, ?_⟩
      · intro n; rw [hinv.mem]
        constructor
        · rintro ⟨j, hj, rest⟩; exact ⟨j, by omega, rest⟩
        · rintro ⟨j, hj, es, hes, d⟩
          by_cases hji : j = i
          · subst hji; simp [hl] at hes
          · exact ⟨j, by omega, es, hes, d⟩
      · intro e he
        obtain ⟨h1, rest⟩ := hinv.src e he
        exact ⟨by omega, rest⟩
      · rw [hinv.found]
        constructor
        · rintro ⟨j, hj, hs⟩; exact ⟨j, by omega, hs⟩
        · rintro ⟨j, hj, hs⟩
          by_cases hji : j = i
          · subst hji; simp [hl] at hs
          · exact ⟨j, by omega, hs⟩
      · rw [hinv.lastErr]
        constructor
        · rintro ⟨j, hj, rest⟩; exact ⟨j, by omega, rest⟩
        · rintro ⟨j, hj, L, hL, hn⟩
          by_cases hji : j = i
          · subst hji; rw [hx] at hL; simp at hL
          · exact ⟨j, by omega, L, hL, hn⟩
    | some L =>
      simp only [readDirLoop]
      have hl : listingAt full i p = layerReadDir L p := by simp [listingAt, hx]
      cases hrd : layerReadDir L p with
      | some es =>
        simp only []
        apply ih (i + 1) _ hd'
        rw [hrd] at hl
        refine ⟨addEntries_nodup i _ es hinv.nodup, ?_, ?_, ?_, ?_⟩
        · intro n
          simp only []
          rw [addEntries_names, hinv.mem]
          constructor
          · rintro (⟨j, hj, rest⟩ | ⟨d, hd⟩)
            · exact ⟨j, by omega, rest⟩
            · exact ⟨i, by omega, es, hl, d, hd⟩
          · rintro ⟨j, hj, es', hes', d, hd⟩
            by_cases hji : j = i
            · subst hji; rw [hl] at hes'; cases hes'; exact Or.inr ⟨d, hd⟩
            · exact Or.inl ⟨j, by omega, es', hes', d, hd⟩
        · intro e he
          simp only [] at he
          obtain ⟨t, ht, hp⟩ := addEntries_prefix i st.merged es
          rw [ht, List.mem_append] at he
          rcases he with he | he
          · obtain ⟨h1, rest⟩ := hinv.src e he
            exact ⟨by omega, rest⟩
          · obtain ⟨h1, h2⟩ := hp e he
            refine ⟨by omega, es, by rw [h1]; exact hl, h2, ?_⟩
            intro j hj es' hes' d hd
            -- the name would already be in merged, contradicting nodup of the extended list
            have hin : e.1 ∈ Names st.merged := (hinv.mem e.1).mpr ⟨j, by omega, es', hes', d, hd⟩
            have hnd := addEntries_nodup i st.merged es hinv.nodup
            rw [ht] at hnd
            simp only [Names, List.map_append] at hnd
            rw [List.nodup_append] at hnd
            exact hnd.2.2 e.1 hin e.1 (List.mem_map.mpr ⟨e, he, rfl⟩) rfl
        · simp only [true_iff]
          exact ⟨i, by omega, by simp [hl]⟩
        · simp only []
          rw [hinv.lastErr]
          constructor
          · rintro ⟨j, hj, rest⟩; exact ⟨j, by omega, rest⟩
          · rintro ⟨j, hj, L', hL', hn⟩
            by_cases hji : j = i
            · subst hji; rw [hx] at hL'; simp at hL'; subst hL'; rw [hrd] at hn; simp at hn
            · exact ⟨j, by omega, L', hL', hn⟩
      | none =>
        simp only []
        apply ih (i + 1) _ hd'
        rw [hrd] at hl
        refine ⟨hinv.nodup, ?_, ?_, ?_, ?_⟩
        · intro n; simp only []; rw [hinv.mem]
          constructor
          · rintro ⟨j, hj, rest⟩; exact ⟨j, by omega, rest⟩
          · rintro ⟨j, hj, es, hes, d⟩
            by_cases hji : j = i
            · subst hji; simp [hl] at hes
            · exact ⟨j, by omega, es, hes, d⟩
        · intro e he
          obtain ⟨h1, rest⟩ := hinv.src e he
          exact ⟨by omega, rest⟩
        · simp only []; rw [hinv.found]
          constructor
          · rintro ⟨j, hj, hs⟩; exact ⟨j, by omega, hs⟩
          · rintro ⟨j, hj, hs⟩
            by_cases hji : j = i
            · subst hji; simp [hl] at hs
            · exact ⟨j, by omega, hs⟩
        · simp only [true_iff]
          exact ⟨i, by omega, L, hx, hrd⟩

theorem rdinv_init (full : Chain) (p : Str) : RDInv 0 full p {} := by
  refine ⟨by simp [Names], ?_, ?_, ?_, ?_⟩ <;> simp [Names]

theorem readDir_inv (c : Chain) (p : Str) : RDInv c.length c p (readDirLoop 0 c p {}) :=
  readDirLoop_inv c p c 0 {} (by simp) (rdinv_init c p)

/-! ### sorting -/

theorem mem_insertByName (e x : MEntry) (l : List MEntry) : x ∈ insertByName e l ↔ x = e ∨ x ∈ l := by
  induction l with
  | nil => simp [insertByName]
  | cons y r ih =>
    simp only [insertByName]
    split
    · simp
    · simp only [List.mem_cons, ih]
      constructor
      · rintro (h | h | h) <;> simp [h]
      · rintro (h | h | h) <;> simp [h]

theorem mem_sortByName (x : MEntry) (l : List MEntry) : x ∈ sortByName l ↔ x ∈ l := by
  induction l with
  | nil => simp [sortByName]
  | cons y r ih => simp [sortByName, mem_insertByName, ih]

theorem insertByName_sorted (e : MEntry) (l : List MEntry)
    (hs : l.Pairwise (fun a b => a.1 < b.1)) (hne : ∀ x ∈ l, x.1 ≠ e.1) :
    (insertByName e l).Pairwise (fun a b => a.1 < b.1) := by
  induction l with
  | nil => simp [insertByName]
  | cons y r ih =>
    simp only [insertByName]
    rw [List.pairwise_cons] at hs
    split
    · rename_i hlt
      rw [List.pairwise_cons]
      refine ⟨?_, List.pairwise_cons.mpr hs⟩
      intro a ha
      simp only [List.mem_cons] at ha
      rcases ha with rfl | ha
      · exact hlt
      · exact List.lt_trans hlt (hs.1 a ha)
    · rename_i hnlt
      rw [List.pairwise_cons]
      refine ⟨?_, ih hs.2 (fun x hx => hne x (List.mem_cons_of_mem _ hx))⟩
      intro a ha
      rw [mem_insertByName] at ha
      rcases ha with rfl | ha
      · have hle : y.1 ≤ a.1 := List.not_lt.mp hnlt
        have hne' : y.1 ≠ a.1 := hne y (by simp)
        rcases List.le_iff_lt_or_eq.mp hle with h | h
        · exact h
        · exact absurd h hne'
      · exact hs.1 a ha

theorem sortByName_sorted (l : List MEntry) (hnd : (Names l).Nodup) :
    (sortByName l).Pairwise (fun a b => a.1 < b.1) := by
  induction l with
  | nil => simp [sortByName]
  | cons y r ih =>
    simp only [sortByName]
    simp only [Names, List.map_cons, List.nodup_cons] at hnd
    apply insertByName_sorted _ _ (ih hnd.2)
    intro x hx heq
    rw [mem_sortByName] at hx
    exact hnd.1 (heq ▸ List.mem_map.mpr ⟨x, hx, rfl⟩)

theorem readDirWith_some {rule : ErrRule} {c : Chain} {p : Str} {l : List MEntry}
    (h : readDirWith rule c p = some l) : l = sortByName (readDirLoop 0 c p {}).merged := by
  unfold readDirWith at h
  simp only [] at h
  cases rule <;> simp only [] at h <;> split at h <;> simp_all

/-! ### Glob -/

theorem mem_insertStr (s x : Str) (l : List Str) : x ∈ insertStr s l ↔ x = s ∨ x ∈ l := by
  induction l with
  | nil => simp [insertStr]
  | cons y r ih =>
    simp only [insertStr]
    split
    · simp
    · split
      · rename_i h; subst h; simp
      · simp only [List.mem_cons, ih]
        constructor
        · rintro (h | h | h) <;> simp [h]
        · rintro (h | h | h) <;> simp [h]

theorem mem_sortDedup (x : Str) (l : List Str) : x ∈ sortDedup l ↔ x ∈ l := by
  induction l with
  | nil => simp [sortDedup]
  | cons y r ih => simp [sortDedup, mem_insertStr, ih]

theorem insertStr_sorted (s : Str) (l : List Str) (hs : l.Pairwise (· < ·)) :
    (insertStr s l).Pairwise (· < ·) := by
  induction l with
  | nil => simp [insertStr]
  | cons y r ih =>
    simp only [insertStr]
    rw [List.pairwise_cons] at hs
    split
    · rename_i hlt
      rw [List.pairwise_cons]
      refine ⟨?_, List.pairwise_cons.mpr hs⟩
      intro a ha
      simp only [List.mem_cons] at ha
      rcases ha with rfl | ha
      · exact hlt
      · exact List.lt_trans hlt (hs.1 a ha)
    · split
      · exact List.pairwise_cons.mpr hs
      · rename_i hnlt hne
        rw [List.pairwise_cons]
        refine ⟨?_, ih hs.2⟩
        intro a ha
        rw [mem_insertStr] at ha
        rcases ha with rfl | ha
        · have hle : y ≤ a := List.not_lt.mp hnlt
          rcases List.le_iff_lt_or_eq.mp hle with h | h
          · exact h
          · exact absurd h.symm hne
        · exact hs.1 a ha

theorem sortDedup_sorted (l : List Str) : (sortDedup l).Pairwise (· < ·) := by
  induction l with
  | nil => simp [sortDedup]
  | cons y r ih => exact insertStr_sorted _ _ ih

theorem mem_globUnion (c : Chain) (pat x : Str) :
    x ∈ globUnion c pat ↔ ∃ (j : Nat) (L : Layer), c[j]? = some (some L) ∧ x ∈ L.glob pat := by
  induction c with
  | nil => simp [globUnion]
  | cons y r ih =>
    cases y with
    | none =>
      simp only [globUnion, ih]
      constructor
      · rintro ⟨j, L, hj, hx⟩; exact ⟨j + 1, L, by simpa using hj, hx⟩
      · rintro ⟨j, L, hj, hx⟩
        cases j with
        | zero => simp at hj
        | succ j' => exact ⟨j', L, by simpa using hj, hx⟩
    | some L0 =>
      simp only [globUnion, List.mem_append, ih]
      constructor
      · rintro (h | ⟨j, L, hj, hx⟩)
        · exact ⟨0, L0, by simp, h⟩
        · exact ⟨j + 1, L, by simpa using hj, hx⟩
      · rintro ⟨j, L, hj, hx⟩
        cases j with
        | zero => simp at hj; subst hj; exact Or.inl hx
        | succ j' => exact Or.inr ⟨j', L, by simpa using hj, hx⟩

end Vuego.Overlay
