/-
The leaves of the evaluator do not return `.fuel`: `LeafTotal` (the hypothesis of Lemmas/Terminates) holds for every world whose expression
evaluator parameter does not return `.fuel`. The only leaf with a step bound of its own is `interpolateAux`; `interpolate` calls it with
`length + 1`, which is enough because every round consumes at least the four delimiter characters.
(The lemmas mirror Lemmas/NoCrash, with "is `.fuel`" in the place of "is a crash outcome".)
-/
import Vuego.Lemmas.Terminates
set_option maxRecDepth 2000
namespace Vuego
open Go

def Res.isFuel {α : Type} : Res α → Bool
  | .fuel => true
  | _ => false

/-- not `.fuel` -/
abbrev NF {α : Type} (r : Res α) : Prop := r.isFuel = false

theorem NF.ne {α : Type} {r : Res α} (h : NF r) : r ≠ .fuel := by intro e; rw [e] at h; cases h
theorem NF.not_fuel {α : Type} (h : NF (Res.fuel : Res α)) : False := by cases h

/-- the only hypothesis: the expression evaluator parameter does not return `.fuel` -/
structure ExprTotal (P : Params) : Prop where
  expr : ∀ e env, NF (P.exprEval e env)

theorem nf_resolveStruct (cfg : ReflectCfg) (fs : List (Str × Str × Bool × Val)) (k : Str) : NF (resolveStruct cfg fs k) := by
  unfold resolveStruct
  repeat' split
  all_goals rfl

theorem nf_resolveValue (cfg : ReflectCfg) (v : Val) (k : Str) : NF (resolveValue cfg v k) := by
  unfold resolveValue
  split
  · rfl
  · split
    · rfl
    · split
      · rfl
      · exact nf_resolveStruct cfg _ _
      · split <;> rfl
      · rfl
      · rfl
      · rfl

theorem nf_lookup (cfg : ReflectCfg) (s : Stack) (k : Str) : NF (s.lookup cfg k) := by
  unfold Stack.lookup
  split
  · rfl
  · split
    · rfl
    · exact nf_resolveValue cfg _ _

theorem nf_absentAsNil (r : Res (Option Val)) (h : NF r) : NF (absentAsNil r) := by
  cases r with
  | ok o => cases o <;> rfl
  | err c m => rfl
  | fuel => exact h
  | panic x => rfl
  | hang x => rfl

theorem nf_resolveStep (cfg : ReflectCfg) (cur : Val) (p : Str) : NF (resolveStep cfg cur p) := by
  unfold resolveStep
  split
  · rfl
  · rfl
  · split
    · rfl
    · exact nf_absentAsNil _ (nf_resolveValue cfg _ _)

theorem nf_walkPath (cfg : ReflectCfg) : ∀ (ps : List Str) (cur : Val), NF (walkPath cfg cur ps)
  | [], _ => rfl
  | p :: rest, cur => by
    have h := nf_resolveStep cfg cur p
    unfold walkPath
    cases hr : resolveStep cfg cur p with
    | ok v => cases v <;> first | rfl | exact nf_walkPath cfg rest _
    | err c m => rfl
    | fuel => rw [hr] at h; cases h
    | panic x => rfl
    | hang x => rfl

theorem nf_resolve (cfg : ReflectCfg) (s : Stack) (e : Str) : NF (s.resolve cfg e) := by
  unfold Stack.resolve
  split
  · exact nf_lookup cfg s e
  · split
    · rfl
    · have h := nf_lookup cfg s ‹Str›
      split
      · rfl
      · exact nf_walkPath cfg _ _
      · assumption

/-! ### pipes -/


theorem nf_wrapErr (pre : Str) (r : Res Val) (h : NF r) : NF (wrapErr pre r) := by
  cases r <;> first | rfl | exact h

theorem nf_resolveArgument (P : Params) (g : ExprTotal P) (s : Stack) (a : Str) : NF (resolveArgument P s a) := by
  unfold resolveArgument
  simp only []
  split
  · rfl
  · split
    · rfl
    · split
      · rfl
      · split
        · rfl
        · have h := nf_resolve P.cfg s (trimSpace a)
          split <;> first | rfl | (rename_i hr; rw [hr] at h; exact h)

theorem nf_mapArgs (P : Params) (g : ExprTotal P) (s : Stack) : ∀ (as : List Str), NF (mapArgs P s as)
  | [] => rfl
  | a :: r => by
    have h1 := nf_resolveArgument P g s a
    have h2 := nf_mapArgs P g s r
    unfold mapArgs
    cases hr : resolveArgument P s a with
    | ok v =>
      simp only []
      cases hm : mapArgs P s r with
      | ok vs => rfl
      | err c m => rfl
      | fuel => rw [hm] at h2; cases h2
      | panic x => rfl
      | hang x => rfl
    | err c m => rfl
    | fuel => rw [hr] at h1; cases h1
    | panic x => rfl
    | hang x => rfl

theorem nf_arityErr (a b : Nat) : NF (arityErr a b) := rfl

theorem nf_callBuiltin (name : Str) (args : List Val) (r : Res Val) (h : callBuiltin name args = some r) : NF r := by
  unfold callBuiltin at h
  simp only [] at h
  repeat' split at h
  all_goals first
    | rfl
    | (simp only [Option.some.injEq] at h; subst h; first | rfl | (split <;> rfl))
    | cases h


theorem nf_evalSegment (P : Params) (g : ExprTotal P) (s : Stack) (seg : Seg) (input : Val) (b : Bool) : NF (evalSegment P s seg input b) := by
  unfold evalSegment
  cases seg with
  | filter name args =>
    simp only []
    have h := nf_mapArgs P g s args
    cases hm : mapArgs P s args with
    | ok vs =>
      simp only []
      cases hc : callBuiltin name (if b = true then input :: vs else vs) with
      | none => rfl
      | some r => exact nf_wrapErr _ _ (nf_callBuiltin _ _ _ hc)
    | err c m => rfl
    | fuel => rw [hm] at h; exact h.not_fuel.elim
    | panic x => rfl
    | hang x => rfl
  | expr e => exact nf_wrapErr _ _ (g.expr _ _)

theorem nf_foldSegs (P : Params) (g : ExprTotal P) (s : Stack) : ∀ (segs : List Seg) (v : Val), NF (foldSegs P s segs v)
  | [], _ => rfl
  | seg :: r, v => by
    have h := nf_evalSegment P g s seg v true
    unfold foldSegs
    cases hs : evalSegment P s seg v true with
    | ok v' => exact nf_foldSegs P g s r v'
    | err c m => rfl
    | fuel => rw [hs] at h; exact h.not_fuel.elim
    | panic x => rfl
    | hang x => rfl

theorem nf_evalPipe (P : Params) (g : ExprTotal P) (s : Stack) (pe : PipeExpr) : NF (evalPipe P s pe) := by
  unfold evalPipe
  split
  · split
    · rename_i first rest _
      have h := nf_evalSegment P g s first .nil false
      cases hs : evalSegment P s first .nil false with
      | ok v => exact nf_foldSegs P g s rest v
      | err c m => rfl
      | fuel => rw [hs] at h; exact h.not_fuel.elim
      | panic x => rfl
      | hang x => rfl
    · rfl
  · have hr := nf_resolve P.cfg s pe.initial
    split
    · exact nf_foldSegs P g s _ _
    · split
      · split
        · rename_i name args _
          have h := nf_evalSegment P g s (.filter name (parseArgs args)) .nil false
          cases hs : evalSegment P s (.filter name (parseArgs args)) .nil false with
          | ok v => exact nf_foldSegs P g s _ v
          | err c m => rfl
          | fuel => rw [hs] at h; exact h.not_fuel.elim
          | panic x => rfl
          | hang x => rfl
        · rfl
      · split
        · exact nf_foldSegs P g s _ _
        · have he := g.expr pe.initial (s.envMap P.cfg)
          cases hx : P.exprEval pe.initial (s.envMap P.cfg) with
          | ok v => rfl
          | err c m => rfl
          | fuel => rw [hx] at he; exact he.not_fuel.elim
          | panic x => rfl
          | hang x => rfl
    all_goals first
      | rfl
      | (rename_i hx; rw [hx] at hr; exact hr.not_fuel.elim)
      | (rename_i x hx; rw [hx] at hr; exact hr.not_fuel.elim)

/-! ### interpolation, bound attributes, conditions -/

theorem nf_castErr {α β : Type} (r : Res α) (h : NF r) : NF (r.castErr : Res β) := by
  cases r <;> first | rfl | exact h

/-- closes a goal `NF …` after the surrounding matches were split, from the `NF` facts about the scrutinees that are in the context -/
macro "nf_close" : tactic =>
  `(tactic| first
    | rfl
    | assumption
    | (apply nf_castErr; assumption)
    | (simp_all [Res.isFuel]; done))

theorem nf_evalMustache (P : Params) (g : ExprTotal P) (s : Stack) (e : Str) : NF (evalMustache P s e) := by
  unfold evalMustache
  have h1 := nf_evalPipe P g s (parsePipeExpr e)
  have h2 := nf_resolve P.cfg s e
  have h3 := g.expr e (s.envMap P.cfg)
  split
  · exact nf_wrapErr _ _ h1
  · repeat' split
    all_goals nf_close

theorem hasPrefix_length : ∀ (s p : Str), hasPrefix s p = true → p.length ≤ s.length
  | _, [], _ => by simp
  | [], _ :: _, h => by simp [hasPrefix] at h
  | c :: s, d :: p, h => by
    simp only [hasPrefix, Bool.and_eq_true] at h
    have := hasPrefix_length s p h.2
    simp only [List.length_cons]; omega

/-- `strings.Index` finds the pattern inside the string -/
theorem index_le : ∀ (s sub : Str) (i : Nat), index s sub = some i → i + sub.length ≤ s.length
  | [], sub, i, h => by
    simp only [index] at h
    split at h
    · rename_i he
      have : sub = [] := by simpa using he
      simp only [Option.some.injEq] at h
      subst h; subst this; simp
    · cases h
  | c :: s, sub, i, h => by
    simp only [index] at h
    split at h
    · rename_i hp
      simp only [Option.some.injEq] at h
      subst h
      have := hasPrefix_length (c :: s) sub hp
      omega
    · cases hr : index s sub with
      | none => rw [hr] at h; cases h
      | some k =>
        rw [hr] at h
        simp only [Option.map_some, Option.some.injEq] at h
        subst h
        have := index_le s sub k hr
        simp only [List.length_cons]; omega

/-- the scan consumes at least the four delimiter characters per round: a step bound above the input's length is never reached -/
theorem nf_interpolateAux (P : Params) (g : ExprTotal P) (s : Stack) : ∀ (f : Nat) (input : Str), input.length < f → NF (interpolateAux P s f input)
  | 0, _, h => by omega
  | f + 1, input, hlen => by
    unfold interpolateAux
    cases hi : index input ['{', '{'] with
    | none => rfl
    | some st =>
      simp only []
      cases hj : index (input.drop (st + 2)) ['}', '}'] with
      | none => rfl
      | some en =>
        simp only []
        have h1 := nf_evalMustache P g s (trimExpr ((input.drop (st + 2)).take en))
        have b1 := index_le input _ st hi
        have b2 := index_le (input.drop (st + 2)) _ en hj
        simp only [List.length_cons, List.length_nil, List.length_drop] at b1 b2
        have h2 := nf_interpolateAux P g s f ((input.drop (st + 2)).drop (en + 2)) (by simp only [List.length_drop]; omega)
        repeat' split
        all_goals nf_close

theorem nf_interpolate (P : Params) (g : ExprTotal P) (s : Stack) (input : Str) : NF (interpolate P s input) := by
  unfold interpolate
  split
  · rfl
  · exact nf_interpolateAux P g s _ _ (Nat.lt_succ_self _)

theorem nf_parseObjectPairs_fold (P : Params) (g : ExprTotal P) (s : Stack) (items : List Str) :
    ∀ (acc : Res (List (Str × Option Val))), NF acc →
      NF (items.foldl (fun acc item =>
        match acc with
        | .ok pairs =>
          match splitFirst ':' item with
          | none => .ok pairs
          | some (k, vexpr) =>
            (match P.exprEval (trimSpace vexpr) (s.envMap P.cfg) with
             | .ok v => .ok (pairs ++ [(trim (trimSpace k) ['\''], some v)])
             | .err _ _ =>
               (match s.resolve P.cfg (trimSpace vexpr) with
                | .ok (some v) => .ok (pairs ++ [(trim (trimSpace k) ['\''], some v)])
                | .ok none => .ok (pairs ++ [(trim (trimSpace k) ['\''], none)])
                | r => r.castErr)
             | r => r.castErr)
        | e => e) acc) := by
  induction items with
  | nil => intro acc h; exact h
  | cons item rest ih =>
    intro acc h
    simp only [List.foldl_cons]
    apply ih
    cases acc with
    | ok pairs =>
      simp only []
      cases hsp : splitFirst ':' item with
      | none => rfl
      | some kv =>
        obtain ⟨k, vexpr⟩ := kv
        simp only []
        have h1 := g.expr (trimSpace vexpr) (s.envMap P.cfg)
        have h2 := nf_resolve P.cfg s (trimSpace vexpr)
        repeat' split
        all_goals nf_close
    | err c m => rfl
    | fuel => exact h.not_fuel.elim
    | panic x => rfl
    | hang x => rfl

theorem nf_parseObjectPairs (P : Params) (g : ExprTotal P) (s : Stack) (content : Str) : NF (parseObjectPairs P s content) := by
  unfold parseObjectPairs
  exact nf_parseObjectPairs_fold P g s _ _ rfl

theorem nf_evalObjectBinding (P : Params) (g : ExprTotal P) (s : Stack) (a e : Str) : NF (evalObjectBinding P s a e) := by
  unfold evalObjectBinding
  simp only []
  have h := nf_parseObjectPairs P g s (((trimSpace e).drop 1).dropLast)
  repeat' split
  all_goals nf_close

theorem nf_evalBoundAttribute (P : Params) (g : ExprTotal P) (s : Stack) (a e : Str) : NF (evalBoundAttribute P s a e) := by
  unfold evalBoundAttribute
  simp only []
  have h1 := nf_interpolate P g s (trimSpace e)
  have h2 := nf_evalObjectBinding P g s a (trimSpace e)
  have h3 := nf_evalPipe P g s (parsePipeExpr (trimSpace e))
  have h4 := nf_resolve P.cfg s (trimSpace e)
  have h5 := g.expr (trimSpace e) (s.envMap P.cfg)
  generalize interpolate P s (trimSpace e) = r1 at h1
  generalize evalObjectBinding P s a (trimSpace e) = r2 at h2
  generalize evalPipe P s (parsePipeExpr (trimSpace e)) = r3 at h3
  generalize s.resolve P.cfg (trimSpace e) = r4 at h4
  generalize P.exprEval (trimSpace e) (s.envMap P.cfg) = r5 at h5
  by_cases c1 : Generated.containsInterpolation (trimSpace e) = true
  · rw [if_pos c1]; cases r1 <;> nf_close
  · rw [if_neg c1]
    by_cases c2 : (hasPrefix (trimSpace e) ['{'] && hasSuffix (trimSpace e) ['}']) = true
    · rw [if_pos c2]; cases r2 <;> nf_close
    · rw [if_neg c2]
      by_cases c3 : routesToPipe (trimSpace e) = true
      · rw [if_pos c3]; exact h3
      · rw [if_neg c3]
        cases r4 with
        | ok o =>
          cases o with
          | some v => rfl
          | none =>
            simp only []
            cases r5 with
            | ok v => cases v <;> rfl
            | err c m => rfl
            | fuel => exact h5.not_fuel.elim
            | panic x => rfl
            | hang x => rfl
        | err c m => nf_close
        | fuel => exact h4.not_fuel.elim
        | panic x => nf_close
        | hang x => nf_close

theorem nf_evalCondition (P : Params) (g : ExprTotal P) (s : Stack) (e : Str) : NF (evalCondition P s e) := by
  unfold evalCondition
  simp only []
  generalize ExprNorm.normalize (trimSpace e) = x
  have h1 := nf_wrapErr ("in expression '".toList ++ x ++ "': ".toList) _ (nf_evalPipe P g s (parsePipeExpr x))
  have h2 := g.expr x (s.envMap P.cfg)
  have h3 := g.expr (trimSpace (x.drop 1)) (s.envMap P.cfg)
  have h4 := nf_resolve P.cfg s (trimSpace (x.drop 1))
  have h5 := nf_resolve P.cfg s x
  repeat' split
  all_goals nf_close


/-- case split on a result known not to crash: the crash cases are closed, `err`/`fuel` (and `ok`, when trivial) by `rfl` -/
macro "nf_cases " r:ident h:ident : tactic =>
  `(tactic| (cases $r:ident <;> first | exact ($h).not_fuel.elim | rfl | skip))

theorem nf_bindE {α β : Type} (r : Res α) (k : α → R β) (hr : NF r) (hk : ∀ a, NF (k a)) : NF (bindE r k) := by
  nf_cases r hr
  case ok a => exact hk a

theorem nf_bindR {α β : Type} (r : R α) (k : α → St → R β) (hr : NF r) (hk : ∀ a st, NF (k a st)) : NF (bindR r k) := by
  nf_cases r hr
  case ok a => exact hk a.1 a.2

theorem nf_prepend (res : List Node) (r : R (List Node)) (hr : NF r) : NF (prepend res r) :=
  nf_bindR r _ hr (fun _ _ => rfl)

theorem nf_foldl {α β : Type} (f : Res β → α → Res β) (hf : ∀ acc a, NF acc → NF (f acc a)) :
    ∀ (l : List α) (acc : Res β), NF acc → NF (l.foldl f acc)
  | [], _, h => h
  | a :: l, acc, h => by simp only [List.foldl_cons]; exact nf_foldl f hf l _ (hf acc a h)

theorem nf_parseFor (s : Str) : NF (parseFor s) := by
  unfold parseFor
  simp only []
  repeat' split
  all_goals rfl

/-! ### chains -/

theorem nf_chainScan (cond : Str → Res Bool) (hc : ∀ e, NF (cond e)) : ∀ (ns : List Node) (idx last : Nat), NF (chainScan cond ns idx last)
  | [], _, _ => rfl
  | n :: r, idx, last => by
    cases n with
    | elem t attrs k =>
      simp only [chainScan]
      split
      · rfl
      · split
        · have h := hc (getAttr attrs (S "v-else-if"))
          generalize cond (getAttr attrs (S "v-else-if")) = c at h
          nf_cases c h
          case ok b =>
            cases b
            · exact nf_chainScan cond hc r _ _
            · rfl
        · split
          · rfl
          · exact nf_chainScan cond hc r _ _
    | text d => simp only [chainScan]; exact nf_chainScan cond hc r _ _
    | comment d => simp only [chainScan]; exact nf_chainScan cond hc r _ _
    | doctype d => simp only [chainScan]; exact nf_chainScan cond hc r _ _

theorem nf_chainSelect (cond : Str → Res Bool) (hc : ∀ e, NF (cond e)) (vIf : Str) (rest : List Node) : NF (chainSelect cond vIf rest) := by
  unfold chainSelect
  split
  · rfl
  · have h := hc vIf
    generalize cond vIf = c at h
    nf_cases c h
    case ok b =>
      cases b
      · exact nf_chainScan cond hc rest _ _
      · rfl

/-! ### attributes -/

theorem nf_evalAttributes (P : Params) (g : ExprTotal P) (s : Stack) (attrs : List Attr) : NF (evalAttributes P s attrs) := by
  unfold evalAttributes
  simp only []
  generalize hF : List.foldl _ (Res.ok (([] : List Attr), ([] : List Str), ([] : Scope))) attrs = first
  have hs : NF first := by
    rw [← hF]
    apply nf_foldl
    · intro acc a hacc
      nf_cases acc hacc
      case ok x =>
        obtain ⟨newAttrs, order, results⟩ := x
        simp only []
        have h1 := nf_wrapErr (S "error evaluating attr " ++ boundNameOf a.1 ++ S ": ") _ (nf_evalBoundAttribute P g s (boundNameOf a.1) (trimSpace a.2))
        have h2 := nf_interpolate P g s (trimSpace a.2)
        generalize wrapErr (S "error evaluating attr " ++ boundNameOf a.1 ++ S ": ") (evalBoundAttribute P s (boundNameOf a.1) (trimSpace a.2)) = r1 at h1
        generalize interpolate P s (trimSpace a.2) = r2 at h2
        split
        · rfl
        · split
          · nf_cases r1 h1
            case ok v => simp only []; split <;> rfl
          · split
            · nf_cases r2 h2
            · rfl
    · rfl
  nf_cases first hs

theorem nf_evalVContent (P : Params) (g : ExprTotal P) (s : Stack) (attrs : List Attr) (d ck : Str) (esc : Bool) :
    NF (evalVContent P s attrs d ck esc) := by
  unfold evalVContent
  simp only []
  split
  · rfl
  · have h1 := nf_resolve P.cfg s (getAttr attrs d)
    have h2 := nf_wrapErr (S "in expression '{{ " ++ getAttr attrs d ++ S " }}': ") _ (nf_evalPipe P g s (parsePipeExpr (getAttr attrs d)))
    generalize s.resolve P.cfg (getAttr attrs d) = r1 at h1
    generalize wrapErr (S "in expression '{{ " ++ getAttr attrs d ++ S " }}': ") (evalPipe P s (parsePipeExpr (getAttr attrs d))) = r2 at h2
    nf_cases r1 h1
    case ok o =>
      cases o with
      | some v => rfl
      | none =>
        by_cases hr : routesToPipe (getAttr attrs d) = true
        · simp only [hr, ↓reduceIte]
          nf_cases r2 h2
        · simp only [hr]; rfl

theorem nf_evalVShow (P : Params) (g : ExprTotal P) (s : Stack) (attrs : List Attr) : NF (evalVShow P s attrs) := by
  unfold evalVShow
  simp only []
  split
  · rfl
  · have h := nf_evalCondition P g s (getAttr attrs (S "v-show"))
    generalize evalCondition P s (getAttr attrs (S "v-show")) = r at h
    nf_cases r h
    case ok b => cases b <;> rfl

theorem nf_elementPrologue (P : Params) (g : ExprTotal P) (s : Stack) (attrs : List Attr) : NF (elementPrologue P s attrs) := by
  unfold elementPrologue
  simp only []
  have h1 := nf_evalVContent P g s attrs (S "v-html") sVHtml false
  generalize evalVContent P s attrs (S "v-html") sVHtml false = r1 at h1
  nf_cases r1 h1
  case ok h =>
    simp only []
    have h2 := nf_evalVContent P g s (h.getD attrs) (S "v-text") sVText true
    generalize evalVContent P s (h.getD attrs) (S "v-text") sVText true = r2 at h2
    nf_cases r2 h2
    case ok t =>
      simp only []
      have h3 := nf_evalAttributes P g s (t.getD (h.getD attrs))
      generalize evalAttributes P s (t.getD (h.getD attrs)) = r3 at h3
      nf_cases r3 h3
      case ok x =>
        obtain ⟨attrs3, sc⟩ := x
        simp only []
        have h4 := nf_evalVShow P g s attrs3
        generalize evalVShow P s attrs3 = r4 at h4
        nf_cases r4 h4

theorem nf_setTemplateAttr (P : Params) (g : ExprTotal P) (jd : Str → Option Val) (sk : Stack) (a : Attr) : NF (setTemplateAttr P jd sk a) := by
  unfold setTemplateAttr
  simp only []
  split
  · rfl
  · split
    · split
      · rfl
      · have h1 := nf_evalPipe P g sk (parsePipeExpr (trimSpace a.2))
        have h2 := g.expr (trimSpace a.2) (sk.envMap P.cfg)
        have h3 := nf_resolve P.cfg sk (trimSpace a.2)
        generalize evalPipe P sk (parsePipeExpr (trimSpace a.2)) = r1 at h1
        generalize P.exprEval (trimSpace a.2) (sk.envMap P.cfg) = r2 at h2
        generalize sk.resolve P.cfg (trimSpace a.2) = r3 at h3
        nf_cases r1 h1
        case err c m =>
          simp only []
          nf_cases r2 h2
          case err c' m' =>
            simp only []
            nf_cases r3 h3
            case ok o => cases o <;> rfl
    · split
      · split <;> rfl
      · rfl

theorem nf_setTemplateAttrs (P : Params) (g : ExprTotal P) (jd : Str → Option Val) : ∀ (as : List Attr) (sk : Stack), NF (setTemplateAttrs P jd as sk)
  | [], _ => rfl
  | a :: r, sk => by
    simp only [setTemplateAttrs]
    have h := nf_setTemplateAttr P g jd sk a
    generalize setTemplateAttr P jd sk a = x at h
    nf_cases x h
    case ok sk' => exact nf_setTemplateAttrs P g jd r sk'



/-- the hypothesis of Lemmas/Terminates, from the one fact about the expression evaluator parameter -/
theorem leafTotal_of_exprTotal (W : World) (g : ExprTotal W.P) : LeafTotal W where
  interp := fun s d => (nf_interpolate W.P g s d).ne
  chain := fun s e rest => (nf_chainSelect _ (fun c => nf_evalCondition W.P g s c) e rest).ne
  prologue := fun s a => (nf_elementPrologue W.P g s a).ne
  resolve := fun s e => (nf_resolve W.P.cfg s e).ne
  attrs := fun s a => (nf_evalAttributes W.P g s a).ne
  vcontent := fun s a d k b => (nf_evalVContent W.P g s a d k b).ne
  tmplAttrs := fun a s => (nf_setTemplateAttrs W.P g W.jsonDecode a s).ne

/-- TERMINATION OF THE EVALUATOR MODEL, with the only hypothesis that the expression evaluator parameter returns (i.e. never `.fuel`) -/
theorem evaluatePage_halts (W : World) (hexpr : ∀ e env, W.P.exprEval e env ≠ .fuel) (file : Str) (dom : List Node) (stack : Stack) :
    ∃ f r, r ≠ .fuel ∧ ∀ f' ≥ f, evaluatePage W f' file dom stack = r := by
  have g : ExprTotal W.P := ⟨fun e env => by
    have := hexpr e env
    cases h : W.P.exprEval e env <;> first | rfl | exact absurd h this⟩
  exact evalList_total W (leafTotal_of_exprTotal W g) _ _ _

end Vuego
