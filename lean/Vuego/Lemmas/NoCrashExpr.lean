/-
The model-side stand-in for expr-lang (`ExprMini`, used by the page correspondence) never returns a crash outcome: so the hypothesis
`hexpr` of `evaluator_never_crashes` is discharged for the instance the correspondence actually runs.
-/
import Vuego.Lemmas.NoCrashEval
import Vuego.Model.ExprMini
namespace Vuego
open Go Vuego.ExprMini

theorem safe_binOp (op : Str) (x y : Val) : Safe (binOp op x y) := by
  unfold binOp
  split
  · rfl
  · split
    · rfl
    · cases x <;> cases y <;> (try rfl) <;> (simp only [unsupported]; repeat' split) <;> rfl

theorem safe_exprMini_eval (env : Scope) : ∀ e : Ex, Safe (ExprMini.eval env e) := by
  intro e
  induction e with
  | lit v => simp only [ExprMini.eval]; rfl
  | var n => simp only [ExprMini.eval]; rfl
  | member e fld ih =>
    unfold ExprMini.eval
    generalize ExprMini.eval env e = r at ih
    safe_cases r ih
    case ok v => cases v <;> (try rfl) <;> (simp only []; repeat' split) <;> rfl
  | index e i ih1 ih2 =>
    unfold ExprMini.eval
    generalize ExprMini.eval env e = r1 at ih1
    generalize ExprMini.eval env i = r2 at ih2
    safe_cases r1 ih1
    case ok v =>
      cases v <;> safe_cases r2 ih2
      all_goals (rename_i w; cases w <;> (try rfl) <;> (simp only []; repeat' split) <;> rfl)
  | not e ih =>
    unfold ExprMini.eval
    generalize ExprMini.eval env e = r at ih
    safe_cases r ih
    case ok v => cases v <;> rfl
  | neg e ih =>
    unfold ExprMini.eval
    generalize ExprMini.eval env e = r at ih
    safe_cases r ih
    case ok v => cases v <;> rfl
  | len e ih =>
    unfold ExprMini.eval
    generalize ExprMini.eval env e = r at ih
    safe_cases r ih
    case ok v => cases v <;> rfl
  | call name e ih =>
    unfold ExprMini.eval
    generalize ExprMini.eval env e = r at ih
    safe_cases r ih
    case ok v => cases v <;> (try rfl) <;> (simp only []; repeat' split) <;> rfl
  | tern c a b ihc iha ihb =>
    unfold ExprMini.eval
    generalize ExprMini.eval env c = r at ihc
    safe_cases r ihc
    case ok v =>
      cases v <;> (try rfl)
      case bool bb => cases bb <;> assumption
  | bin op a b iha ihb =>
    unfold ExprMini.eval
    generalize ExprMini.eval env a = ra at iha
    generalize ExprMini.eval env b = rb at ihb
    split
    · safe_cases ra iha
      case ok v =>
        cases v <;> (try rfl)
        case bool bb => cases bb <;> first | rfl | assumption
    · split
      · safe_cases ra iha
        case ok v =>
          cases v <;> (try rfl)
          case bool bb => cases bb <;> first | rfl | assumption
      · safe_cases ra iha
        case ok x =>
          safe_cases rb ihb
          case ok y => exact safe_binOp op x y

/-- `ExprEvaluator.Eval` on the fragment never crashes -/
theorem safe_exprMini (s : Str) (env : Scope) : Safe (ExprMini.exprEval s env) := by
  unfold ExprMini.exprEval
  split
  · exact safe_exprMini_eval env _
  · rfl

end Vuego
