import Vuego.Lemmas.Html
import Vuego.Model.Render
namespace Vuego
open Go Html

/-- the attributes the serialiser writes, as (output key, value) -/
def outKey (k : Str) : Str := if Generated.isLiteralAttr k then (k.drop 1).dropLast else k

def visibleAttrs : List Attr → List (Str × Str)
  | [] => []
  | (k, v) :: r => if Generated.shouldIgnoreAttr k then visibleAttrs r else (outKey k, v) :: visibleAttrs r

/-- a state inside a start tag after which the serialiser's ` key="value"` or `>` follows -/
def InTag (s : St) (t : Tag) : Prop := s = .tagName t ∨ s = .afterValQ t

theorem step_inTag_space {s : St} {t : Tag} (h : InTag s t) : step s ' ' = (.beforeAttrName t, []) := by
  rcases h with rfl | rfl <;> simp [step, isWs]

theorem step_inTag_gt {s : St} {t : Tag} (h : InTag s t) : step s '>' = (.data, [emitTag t false]) := by
  rcases h with rfl | rfl <;> simp [step, isWs]

theorem run_one_attr {s : St} {t : Tag} (h : InTag s t) (key v : Str) (hk : WFAttrName key) :
    run s (' ' :: (key ++ ['=', '"'] ++ escape v ++ ['"'])) = (.afterValQ (addAttr t key v), []) := by
  obtain ⟨hne, hall⟩ := hk
  cases key with
  | nil => exact absurd rfl hne
  | cons c r =>
    obtain ⟨h1, h2, h3, _, h5⟩ := nameChar_props (hall c (by simp))
    have s2 : step (.beforeAttrName t) c = (.attrName t [c], []) := by
      simp [step, h1, h2, h3, h5]
    have s3 : step (.attrName t (c :: r)) '=' = (.beforeAttrValue t (c :: r), []) := by simp [step, isWs]
    have s4 : step (.beforeAttrValue t (c :: r)) '"' = (.valDq t (c :: r) [], []) := by simp [step, isWs]
    have s5 : step (.valDq t (c :: r) v) '"' = (.afterValQ (addAttr t (c :: r) v), []) := by simp [step]
    have e : ' ' :: ((c :: r) ++ ['=', '"'] ++ escape v ++ ['"']) = [' '] ++ ([c] ++ (r ++ (['='] ++ (['"'] ++ (escape v ++ ['"']))))) := by simp
    rw [e, run_append, run_singleton, step_inTag_space h]
    simp only [List.nil_append]
    rw [run_append, run_singleton, s2]
    simp only [List.nil_append]
    rw [run_append, run_attrName_chars _ _ r (fun x hx => hall x (by simp [hx]))]
    simp only [List.singleton_append, List.nil_append]
    rw [run_cons, s3]
    simp only [List.nil_append]
    rw [run_cons, s4]
    simp only [List.nil_append]
    rw [run_append, run_valDq_escape, run_singleton]
    simp only [List.nil_append]
    rw [s5]

theorem run_attrs (hesc : ∀ v, Generated.escapeAttrValue v = escape v)
    (attrs : List Attr) : ∀ (s : St) (t : Tag), InTag s t → (∀ kv ∈ visibleAttrs attrs, WFAttrName kv.1) →
    ∃ s', InTag s' { t with attrs := t.attrs ++ visibleAttrs attrs } ∧ run s (renderAttrs attrs) = (s', []) := by
  induction attrs with
  | nil =>
    intro s t h _
    refine ⟨s, ?_, rfl⟩
    simpa [visibleAttrs] using h
  | cons a r ih =>
    obtain ⟨k, v⟩ := a
    intro s t h hwf
    by_cases hi : Generated.shouldIgnoreAttr k = true
    · simp only [renderAttrs, visibleAttrs, hi, ↓reduceIte] at hwf ⊢
      exact ih s t h hwf
    · have hi' : Generated.shouldIgnoreAttr k = false := by simpa using hi
      simp only [visibleAttrs, hi', Bool.false_eq_true, ↓reduceIte] at hwf ⊢
      have hk : WFAttrName (outKey k) := hwf (outKey k, v) (by simp)
      have := run_one_attr h (outKey k) v hk
      obtain ⟨s', hs', hr⟩ := ih (.afterValQ (addAttr t (outKey k) v)) (addAttr t (outKey k) v) (Or.inr rfl)
        (fun kv hkv => hwf kv (by simp [hkv]))
      refine ⟨s', ?_, ?_⟩
      · simpa [addAttr, List.append_assoc] using hs'
      · simp only [renderAttrs, hi', Bool.false_eq_true, ↓reduceIte, hesc]
        have e : ' ' :: ((if Generated.isLiteralAttr k = true then (List.drop 1 k).dropLast else k) ++ ['=', '"'] ++ escape v ++ ['"'] ++ renderAttrs r)
            = (' ' :: (outKey k ++ ['=', '"'] ++ escape v ++ ['"'])) ++ renderAttrs r := by
          simp [outKey]
        rw [e, run_append, this, hr]
        rfl

theorem run_data_plain (s : Str) (h : ∀ c ∈ s, c ≠ '<' ∧ c ≠ '&') : run .data s = (.data, s.map .ch) := by
  induction s with
  | nil => rfl
  | cons c r ih =>
    have := h c (by simp)
    rw [run_cons]
    have s1 : step .data c = (.data, [.ch c]) := by simp [step, stepData, this.1, this.2]
    rw [s1, ih (fun x hx => h x (by simp [hx]))]
    simp

theorem run_data_spaces (n : Nat) : run .data (spaces n) = (.data, (spaces n).map .ch) := by
  apply run_data_plain
  intro c hc
  simp only [spaces, List.mem_replicate] at hc
  rw [hc.2]
  decide

/-- `<tag attrs…>` from the data state yields exactly one start-tag token carrying the visible attributes with their values -/
theorem run_start_tag (hesc : ∀ v, Generated.escapeAttrValue v = escape v)
    (tag : Str) (attrs : List Attr) (ht : WFTag tag) (ha : ∀ kv ∈ visibleAttrs attrs, WFAttrName kv.1) :
    run .data ('<' :: tag ++ renderAttrs attrs ++ ['>']) = (.data, [.startTag tag (visibleAttrs attrs) false]) := by
  have e : '<' :: tag ++ renderAttrs attrs ++ ['>'] = ('<' :: tag) ++ (renderAttrs attrs ++ ['>']) := by simp
  rw [e, run_append, run_open_tag tag ht]
  obtain ⟨s', hs', hr⟩ := run_attrs hesc attrs _ _ (Or.inl rfl) ha
  simp only [List.nil_append]
  rw [run_append, hr, run_singleton, step_inTag_gt hs']
  simp [emitTag]

end Vuego
