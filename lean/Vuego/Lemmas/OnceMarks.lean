import Vuego.Lemmas.EvalInv
/-! The state after a marked element was visited for the first time contains its id - for EVERY kind of element the top-of-loop test
applies to (plain, `<slot>`, `<template>`, `v-pre`), whatever the element and the siblings after it go on to do. -/
namespace Vuego
open Go

theorem frame_after_once_mark (W : World) (f : Nat) (ctx : Ctx) (st st' : St) (tag : Str) (attrs : List Attr) (kids rest out : List Node)
    (hh : onceHereOf attrs = true) (hc : st.seen.contains (getAttr attrs (S "v-once-id")) = false) (hs : st.stack.scopes ≠ [])
    (h : evalList W (f + 1) ctx st (.elem tag attrs kids :: rest) = .ok (out, st')) :
    Frame { st with seen := st.seen ++ [getAttr attrs (S "v-once-id")] } st' := by
  have ih := frameAt W f
  simp only [evalList, hh, hc, Bool.and_false, Bool.false_eq_true, ↓reduceIte] at h
  generalize hst2 : ({ st with seen := st.seen ++ [getAttr attrs (S "v-once-id")] } : St) = st2 at h ⊢
  have hs2 : st2.stack.scopes ≠ [] := by rw [← hst2]; exact hs
  split at h
  · obtain ⟨o, ho, _⟩ := prepend_ok h
    exact ih.list _ _ _ _ _ hs2 ho
  · split at h
    · exact ih.list _ _ _ _ _ hs2 h
    · split at h
      · obtain ⟨rs, st1, h1, hk⟩ := bindR_ok h
        obtain ⟨o, ho, _⟩ := prepend_ok hk
        have f1 := ih.vfor _ _ _ _ _ _ _ _ hs2 h1
        exact f1.trans (ih.list _ _ _ _ _ (f1.1.nonempty hs2) ho)
      · split at h
        · obtain ⟨ps, h1, hk⟩ := bindE_ok h
          split at hk
          · exact ih.list _ _ _ _ _ hs2 hk
          · split at hk
            · exact ih.list _ _ _ _ _ hs2 hk
            · rename_i st3 hg
              have fg := onceGate_frame hg
              obtain ⟨res, st1, h2, hk2⟩ := bindR_ok hk
              obtain ⟨o, ho, _⟩ := prepend_ok hk2
              have hs3 := fg.1.nonempty hs2
              have f1 := ih.asElem _ _ _ _ _ _ _ hs3 h2
              exact fg.trans (f1.trans (ih.list _ _ _ _ _ (f1.1.nonempty hs3) ho))
          · split at hk
            · split at hk
              · exact ih.list _ _ _ _ _ hs2 hk
              · rename_i st3 hg
                have fg := onceGate_frame hg
                obtain ⟨res, st1, h2, hk2⟩ := bindR_ok hk
                obtain ⟨o, ho, _⟩ := prepend_ok hk2
                have hs3 := fg.1.nonempty hs2
                have f1 := ih.asElem _ _ _ _ _ _ _ hs3 h2
                exact fg.trans (f1.trans (ih.list _ _ _ _ _ (f1.1.nonempty hs3) ho))
            · exact ih.list _ _ _ _ _ hs2 hk
        · split at h
          · obtain ⟨res, st1, h1, hk⟩ := bindR_ok h
            obtain ⟨o, ho, _⟩ := prepend_ok hk
            have f1 := ih.slot _ _ _ _ _ _ hs2 h1
            exact f1.trans (ih.list _ _ _ _ _ (f1.1.nonempty hs2) ho)
          · split at h
            · obtain ⟨res, st1, h1, hk⟩ := bindR_ok h
              obtain ⟨o, ho, _⟩ := prepend_ok hk
              have f1 := ih.tmpl _ _ _ _ _ _ hs2 h1
              exact f1.trans (ih.list _ _ _ _ _ (f1.1.nonempty hs2) ho)
            · obtain ⟨res, st1, h1, hk⟩ := bindR_ok h
              obtain ⟨o, ho, _⟩ := prepend_ok hk
              have f1 := ih.plain _ _ _ _ _ _ _ hs2 h1
              exact f1.trans (ih.list _ _ _ _ _ (f1.1.nonempty hs2) ho)

end Vuego
