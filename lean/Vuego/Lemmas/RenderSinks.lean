/-
The serialiser theorem of Lemmas/RenderTree, extended to the three shapes an EVALUATED DOM has beyond a plain one:
  * an element carrying evaluated `v-text` content (the internal attribute `data-v-text-content`, holding `escape x`): written between the
    tags as it is — a tokenizer reads the characters of `x`;
  * a `<template>` that is not kept: not written, its children are written in its place;
  * a kept `<template v-keep>`: written as an element (without the `v-keep` attribute), children on their own lines.
Evaluated `v-html` content is the one sink the property exempts (its value IS markup) and stays excluded.
-/
import Vuego.Lemmas.Skeleton
namespace Vuego
open Go Html

/-- the decoded text of an evaluated `v-text` content attribute -/
def vtextOf (attrs : List Attr) : Str := (contentAttrs attrs).2

mutual
/-- well-formed EVALUATED DOM: names as a parser produces them, no raw-text element, no evaluated v-html content; v-text content is escaped text -/
def WFENode : Node → Prop
  | .text _ => True
  | .comment _ => True
  | .doctype d => '>' ∉ d
  | .elem tag attrs kids =>
    (contentAttrs attrs).1 = [] ∧
    (vtextOf attrs ≠ [] → ∃ x, vtextOf attrs = escape x) ∧
    (tag ≠ sTemplate → WFTag tag ∧ isRawTextTag tag = false ∧ (∀ kv ∈ visibleAttrs attrs, WFAttrName kv.1)) ∧
    (tag = sTemplate → hasAttr attrs sVKeep = true → ∀ kv ∈ visibleAttrs (removeAttr attrs sVKeep), WFAttrName kv.1) ∧
    WFEList kids
def WFEList : List Node → Prop
  | [] => True
  | n :: r => WFENode n ∧ WFEList r
end

mutual
/-- what an HTML5 tokenizer must find in the serialiser's output for an evaluated DOM -/
def toksENode (indent : Nat) : Node → List Tok
  | .text d => if blankText d then [] else (spaces indent ++ d).map .ch
  | .comment _ => []
  | .doctype _ => if Generated.rendersDoctype then [.comment, .ch '\n'] else []
  | .elem tag attrs kids =>
    if vtextOf attrs ≠ [] then
      if tag = sTemplate then (unescape (vtextOf attrs)).map .ch
      else (spaces indent).map .ch ++ [.startTag tag (visibleAttrs attrs) false] ++ (unescape (vtextOf attrs)).map .ch ++ [.endTag tag, .ch '\n']
    else if tag = sTemplate then
      if hasAttr attrs sVKeep then
        (spaces indent).map .ch ++ [.startTag tag (visibleAttrs (removeAttr attrs sVKeep)) false, .ch '\n'] ++
          toksEList (indent + 2) kids ++ (spaces indent).map .ch ++ [.endTag tag, .ch '\n']
      else toksEList indent kids
    else
      match kidShape kids with
      | .none => (spaces indent).map .ch ++ [.startTag tag (visibleAttrs attrs) false, .endTag tag, .ch '\n']
      | .oneText d => (spaces indent).map .ch ++ [.startTag tag (visibleAttrs attrs) false] ++ d.map .ch ++ [.endTag tag, .ch '\n']
      | .many =>
        (spaces indent).map .ch ++ [.startTag tag (visibleAttrs attrs) false, .ch '\n'] ++
          toksEList (indent + 2) kids ++ (spaces indent).map .ch ++ [.endTag tag, .ch '\n']
def toksEList (indent : Nat) : List Node → List Tok
  | [] => []
  | n :: r => toksENode indent n ++ toksEList indent r
end

theorem wfTag_template : WFTag sTemplate :=
  ⟨'t', "emplate".toList, rfl, by decide, by decide, by decide⟩

theorem template_not_raw : isRawTextTag sTemplate = false := by decide

theorem unescape_escape' (s : Str) : unescape (escape s) = s := by
  induction s with
  | nil => rfl
  | cons c r ih =>
    by_cases h : special c = true
    · simp only [special, Bool.or_eq_true, beq_iff_eq] at h
      rcases h with ((((rfl | rfl) | rfl) | rfl) | rfl) | rfl <;> simp [escape, escChar, unescape, ih]
    · have hs : special c = false := by simpa using h
      simp only [escape, escChar_of_not_special c hs, List.singleton_append]
      simp only [special, Bool.or_eq_false_iff, beq_eq_false_iff_ne, ne_eq] at hs
      have hc : c ≠ '&' := hs.1.1.1.1.1
      rw [unescape.eq_def]
      split <;> simp_all


theorem contentAttrs_fst_snd {attrs : List Attr} (h1 : (contentAttrs attrs).1 = []) : contentAttrs attrs = ([], vtextOf attrs) := by
  unfold vtextOf
  rw [← h1]

mutual
theorem run_renderENode (E : EscapesOnce) (n : Node) (h : WFENode n) (parent : Str) (hp : isRawTextTag parent = false) (indent : Nat) :
    run .data (renderNode parent indent n) = (.data, toksENode indent n) :=
  match n, h with
  | .text d, _ => by
    simp only [renderNode, toksENode]
    split
    · rfl
    · rw [hp, E.text, run_append, run_data_spaces, run_data_escape]
      simp
  | .comment _, _ => rfl
  | .doctype d, h => by
    simp only [WFENode] at h
    simp only [renderNode, toksENode]
    split
    · exact run_doctype d h
    · rfl
  | .elem tag attrs kids, h => by
    simp only [WFENode] at h
    obtain ⟨hh, hvt, hplain, hkeep, hkids⟩ := h
    have hca := contentAttrs_fst_snd hh
    by_cases hv : vtextOf attrs = []
    · -- no evaluated content
      rw [hv] at hca
      by_cases htpl : tag = sTemplate
      · subst htpl
        by_cases hk : hasAttr attrs sVKeep = true
        · -- a kept template: an element without its v-keep attribute, children on their own lines
          have hl := run_renderEList E kids hkids sTemplate template_not_raw (indent + 2)
          simp only [renderNode, hca, toksENode, hv, hk]
          simp only [bne_self_eq_false, Bool.or_self, Bool.false_eq_true, ↓reduceIte, beq_self_eq_true, Bool.not_true, Bool.and_false,
            Bool.and_true, ne_eq, not_true_eq_false]
          exact run_block E sTemplate (removeAttr attrs sVKeep) wfTag_template (hkeep rfl hk) indent _ _ hl
        · -- a template that is not kept: its children in its place
          have hk' : hasAttr attrs sVKeep = false := by simpa using hk
          have hl := run_renderEList E kids hkids parent hp indent
          simp only [renderNode, hca, toksENode, hv, hk']
          simp only [bne_self_eq_false, Bool.or_self, Bool.false_eq_true, ↓reduceIte, beq_self_eq_true, Bool.not_false, Bool.and_true,
            ne_eq, not_true_eq_false]
          exact hl
      · obtain ⟨ht, hraw, hattrs⟩ := hplain htpl
        have hnt' : (tag == sTemplate) = false := by simpa using htpl
        have hl := run_renderEList E kids hkids tag hraw (indent + 2)
        simp only [renderNode, hca, hnt', toksENode, hv, htpl]
        simp only [bne_self_eq_false, Bool.or_self, Bool.false_eq_true, ↓reduceIte, Bool.false_and, ne_eq, not_true_eq_false]
        cases kidShape kids with
        | none =>
          simp only []
          have e : spaces indent ++ '<' :: tag ++ renderAttrs attrs ++ ['>', '<', '/'] ++ tag ++ ['>', '\n'] =
              (spaces indent ++ ('<' :: tag ++ renderAttrs attrs ++ ['>'])) ++ (['<', '/'] ++ tag ++ ['>', '\n']) := by simp
          rw [e, run_data_append (run_open E tag attrs ht hattrs indent) (run_tail tag ht)]
          simp
        | oneText d =>
          simp only []
          have e : spaces indent ++ '<' :: tag ++ renderAttrs attrs ++ ['>'] ++ renderTextData (isRawTextTag tag) d ++ ['<', '/'] ++ tag ++ ['>', '\n'] =
              (spaces indent ++ ('<' :: tag ++ renderAttrs attrs ++ ['>'])) ++ (escape d ++ (['<', '/'] ++ tag ++ ['>', '\n'])) := by
            rw [hraw, E.text]; simp
          rw [e, run_data_append (run_open E tag attrs ht hattrs indent) (run_data_append (run_data_escape d) (run_tail tag ht))]
          simp
        | many =>
          simp only []
          exact run_block E tag attrs ht hattrs indent _ _ hl
    · -- evaluated v-text content: `escape x`, written as it is
      obtain ⟨x, hx⟩ := hvt hv
      have hne : (vtextOf attrs != []) = true := by simpa using hv
      rw [hx] at hca
      have hxne : (escape x != []) = true := by rw [← hx]; exact hne
      by_cases htpl : tag = sTemplate
      · subst htpl
        have hv' : ¬ escape x = [] := by rw [← hx]; exact hv
        simp only [renderNode, hca, toksENode, hx, hxne]
        simp only [bne_self_eq_false, Bool.false_or, ↓reduceIte, beq_self_eq_true, ne_eq, unescape_escape', hv', not_false_eq_true]
        exact run_data_escape x
      · obtain ⟨ht, hraw, hattrs⟩ := hplain htpl
        have hnt' : (tag == sTemplate) = false := by simpa using htpl
        simp only [renderNode, hca, toksENode, hx, hxne, hnt', htpl]
        simp only [bne_self_eq_false, Bool.false_or, ↓reduceIte, Bool.false_eq_true, unescape_escape']
        have hv' : ¬ escape x = [] := by rw [← hx]; exact hv
        simp only [ne_eq, hv', not_false_eq_true, ↓reduceIte]
        have e : spaces indent ++ '<' :: tag ++ renderAttrs attrs ++ ['>'] ++ escape x ++ ['<', '/'] ++ tag ++ ['>', '\n'] =
            (spaces indent ++ ('<' :: tag ++ renderAttrs attrs ++ ['>'])) ++ (escape x ++ (['<', '/'] ++ tag ++ ['>', '\n'])) := by simp
        rw [e, run_data_append (run_open E tag attrs ht hattrs indent) (run_data_append (run_data_escape x) (run_tail tag ht))]
        simp
theorem run_renderEList (E : EscapesOnce) (ns : List Node) (h : WFEList ns) (parent : Str) (hp : isRawTextTag parent = false) (indent : Nat) :
    run .data (renderList parent indent ns) = (.data, toksEList indent ns) :=
  match ns, h with
  | [], _ => rfl
  | n :: r, h => by
    simp only [WFEList] at h
    simp only [renderList, toksEList]
    rw [run_append, run_renderENode E n h.1 parent hp indent, run_renderEList E r h.2 parent hp indent]
end


/-! ### the element / attribute-name structure of an evaluated DOM -/

mutual
/-- independent of every text, every attribute value and every evaluated v-text content -/
def shapeENode : Node → List SkelItem
  | .elem tag attrs kids =>
    if vtextOf attrs ≠ [] then
      if tag = sTemplate then [] else [.open tag ((visibleAttrs attrs).map (·.1)), .close tag]
    else if tag = sTemplate then
      if hasAttr attrs sVKeep then .open tag ((visibleAttrs (removeAttr attrs sVKeep)).map (·.1)) :: (shapeEList kids ++ [.close tag])
      else shapeEList kids
    else .open tag ((visibleAttrs attrs).map (·.1)) :: (shapeEList kids ++ [.close tag])
  | .doctype _ => if Generated.rendersDoctype then [.cmt] else []
  | _ => []
def shapeEList : List Node → List SkelItem
  | [] => []
  | n :: r => shapeENode n ++ shapeEList r
end

mutual
theorem skel_toksENode (indent : Nat) (n : Node) : skel (toksENode indent n) = shapeENode n :=
  match n with
  | .text d => by
    simp only [toksENode, shapeENode]
    split
    · rfl
    · exact skel_chars _
  | .comment _ => rfl
  | .doctype _ => by
    simp only [toksENode, shapeENode]
    split <;> rfl
  | .elem tag attrs kids => by
    have hl2 := skel_toksEList (indent + 2) kids
    have hl0 := skel_toksEList indent kids
    simp only [toksENode, shapeENode]
    by_cases hv : vtextOf attrs = []
    · simp only [hv, ne_eq, not_true_eq_false, ↓reduceIte]
      by_cases htpl : tag = sTemplate
      · simp only [htpl, ↓reduceIte]
        split
        · simp [skel_append, skel_chars, skel, hl2]
        · exact hl0
      · simp only [htpl, ↓reduceIte]
        cases hks : kidShape kids with
        | none =>
          simp only []
          rw [kidShape_none hks]
          simp [skel_append, skel_chars, skel, shapeEList]
        | oneText d =>
          simp only []
          rw [kidShape_oneText hks]
          simp [skel_append, skel_chars, skel, shapeEList, shapeENode]
        | many =>
          simp only []
          simp [skel_append, skel_chars, skel, hl2]
    · simp only [ne_eq, hv, not_false_eq_true, ↓reduceIte]
      split
      · exact skel_chars _
      · simp [skel_append, skel_chars, skel]
theorem skel_toksEList (indent : Nat) (ns : List Node) : skel (toksEList indent ns) = shapeEList ns :=
  match ns with
  | [] => rfl
  | n :: r => by
    simp only [toksEList, shapeEList, skel_append]
    rw [skel_toksENode indent n, skel_toksEList indent r]
end

end Vuego

namespace Vuego
open Go Html

/-! ### escaping commutes with trimming (the evaluated v-text content passes through `evalAttributes`, which trims attribute values) -/

/-- the white space `escape` leaves alone: every `isSpace` character except the carriage return, which is written as `&#13;` -/
def isPlainSpace (c : Char) : Bool := isSpace c && c != '\r'

theorem isPlainSpace_not_special {c : Char} (h : isPlainSpace c = true) : special c = false := by
  simp only [isPlainSpace, isSpace, Bool.and_eq_true, Bool.or_eq_true, beq_iff_eq, bne_iff_ne, ne_eq] at h
  obtain ⟨h, hcr⟩ := h
  rcases h with ((((((rfl | rfl) | rfl) | rfl) | rfl) | rfl) | rfl) | rfl <;> first | decide | exact absurd rfl hcr

theorem isPlainSpace_isSpace {c : Char} (h : isPlainSpace c = true) : isSpace c = true := by
  simp only [isPlainSpace, Bool.and_eq_true] at h; exact h.1

theorem escape_append (a b : Str) : escape (a ++ b) = escape a ++ escape b := by
  induction a with
  | nil => rfl
  | cons c r ih => simp [escape, ih]

theorem escChar_head_not_space (c : Char) (h : isPlainSpace c = false) : ∃ d r, escChar c = d :: r ∧ isSpace d = false := by
  by_cases hs : special c = true
  · simp only [special, Bool.or_eq_true, beq_iff_eq] at hs
    rcases hs with ((((rfl | rfl) | rfl) | rfl) | rfl) | rfl <;> exact ⟨'&', _, rfl, by decide⟩
  · have hs' : special c = false := by simpa using hs
    refine ⟨c, [], escChar_of_not_special c hs', ?_⟩
    have hcr : c ≠ '\r' := by
      intro hc; subst hc; exact absurd hs' (by decide)
    cases hsp : isSpace c with
    | false => rfl
    | true => simp [isPlainSpace, hsp, hcr] at h

theorem escChar_last_not_space (c : Char) (h : isPlainSpace c = false) : ∃ d r, (escChar c).reverse = d :: r ∧ isSpace d = false := by
  by_cases hs : special c = true
  · simp only [special, Bool.or_eq_true, beq_iff_eq] at hs
    rcases hs with ((((rfl | rfl) | rfl) | rfl) | rfl) | rfl <;> exact ⟨';', _, rfl, by decide⟩
  · have hs' : special c = false := by simpa using hs
    refine ⟨c, [], by rw [escChar_of_not_special c hs']; rfl, ?_⟩
    have hcr : c ≠ '\r' := by
      intro hc; subst hc; exact absurd hs' (by decide)
    cases hsp : isSpace c with
    | false => rfl
    | true => simp [isPlainSpace, hsp, hcr] at h

theorem trimLeft_escape (x : Str) : trimLeft (escape x) = escape (x.dropWhile isPlainSpace) := by
  induction x with
  | nil => rfl
  | cons c r ih =>
    by_cases h : isPlainSpace c = true
    · have : escChar c = [c] := escChar_of_not_special c (isPlainSpace_not_special h)
      simp only [escape, this, List.singleton_append, trimLeft, List.dropWhile_cons, h, isPlainSpace_isSpace h, ↓reduceIte]
      exact ih
    · have h' : isPlainSpace c = false := by simpa using h
      obtain ⟨d, r', hd, hds⟩ := escChar_head_not_space c h'
      simp only [escape, trimLeft, List.dropWhile_cons, h', Bool.false_eq_true, ↓reduceIte, hd, List.cons_append, hds]

theorem dropWhile_rev_escape (y : Str) :
    (escape y.reverse).reverse.dropWhile isSpace = (escape ((y.dropWhile isPlainSpace).reverse)).reverse := by
  induction y with
  | nil => rfl
  | cons c r ih =>
    have e1 : escape ((c :: r).reverse) = escape r.reverse ++ escChar c := by
      simp [List.reverse_cons, escape_append, escape]
    by_cases h : isPlainSpace c = true
    · have : escChar c = [c] := escChar_of_not_special c (isPlainSpace_not_special h)
      rw [e1, this]
      simp only [List.reverse_append, List.reverse_singleton, List.singleton_append, List.dropWhile_cons, h, isPlainSpace_isSpace h, ↓reduceIte]
      exact ih
    · have h' : isPlainSpace c = false := by simpa using h
      obtain ⟨d, r', hd, hds⟩ := escChar_last_not_space c h'
      rw [e1]
      simp only [List.reverse_append, hd, List.cons_append, List.dropWhile_cons, hds, Bool.false_eq_true, ↓reduceIte, h']
      rw [← List.cons_append, ← hd, ← List.reverse_append, ← e1]

theorem trimRight_escape (x : Str) : trimRight (escape x) = escape ((x.reverse.dropWhile isPlainSpace).reverse) := by
  have h := dropWhile_rev_escape x.reverse
  simp only [List.reverse_reverse] at h
  simp only [trimRight, h, List.reverse_reverse]

/-- trimming an escaped text gives an escaped text again: the text with its plain white space trimmed (a carriage return at either end
    was written as `&#13;` and stays) -/
theorem trimSpace_escape (x : Str) : ∃ y, trimSpace (escape x) = escape y := by
  refine ⟨((x.dropWhile isPlainSpace).reverse.dropWhile isPlainSpace).reverse, ?_⟩
  simp only [trimSpace, trimLeft_escape, trimRight_escape]

end Vuego
