/-
String lemmas for the formatter's raw-text handling: `splitChar` / `joinWith` are inverse on separator-free lines, and `trimRawContent`
is stable under what the formatter itself wraps around the content (a newline before, a newline and the closing tag's indentation after).
-/
import Vuego.Model.FmtTree
namespace Vuego.FmtTree
open Go Vuego

theorem splitChar_ne_nil (sep : Char) : ∀ s : Str, splitChar sep s ≠ []
  | [] => by simp [splitChar]
  | c :: s => by
    simp only [splitChar]
    split
    · simp
    · split <;> simp

theorem splitChar_no_sep (sep : Char) : ∀ (s : Str), sep ∉ s → splitChar sep s = [s]
  | [], _ => rfl
  | c :: s, h => by
    have hc : (c == sep) = false := by
      have : c ≠ sep := fun e => h (by simp [e])
      simpa using this
    have ih := splitChar_no_sep sep s (fun hm => h (by simp [hm]))
    simp [splitChar, hc, ih]

theorem splitChar_append_sep (sep : Char) : ∀ (a b : Str), sep ∉ a → splitChar sep (a ++ sep :: b) = a :: splitChar sep b
  | [], b, _ => by simp [splitChar]
  | c :: a, b, h => by
    have hc : (c == sep) = false := by
      have : c ≠ sep := fun e => h (by simp [e])
      simpa using this
    have ih := splitChar_append_sep sep a b (fun hm => h (by simp [hm]))
    simp [splitChar, hc, ih]

/-- the pieces `splitChar` yields contain no separator -/
theorem splitChar_pieces (sep : Char) : ∀ (s : Str), ∀ l ∈ splitChar sep s, sep ∉ l
  | [], l, hl => by simp [splitChar] at hl; subst hl; simp
  | c :: s, l, hl => by
    have ih := splitChar_pieces sep s
    simp only [splitChar] at hl
    by_cases hc : (c == sep) = true
    · simp only [hc, ↓reduceIte, List.mem_cons] at hl
      rcases hl with rfl | hl
      · simp
      · exact ih l hl
    · have hc' : (c == sep) = false := by simpa using hc
      simp only [hc', Bool.false_eq_true, ↓reduceIte] at hl
      cases hs : splitChar sep s with
      | nil => exact absurd hs (splitChar_ne_nil sep s)
      | cons h t =>
        rw [hs] at hl ih
        simp only [List.mem_cons] at hl
        rcases hl with rfl | hl
        · intro hm
          simp only [List.mem_cons] at hm
          rcases hm with e | hm
          · exact absurd e.symm (by simpa using hc')
          · exact ih h (by simp) hm
        · exact ih l (by simp [hl])

/-- `joinWith [sep]` followed by something that starts a new piece: the lines come back, then the pieces of the rest -/
theorem splitChar_join_append (sep : Char) : ∀ (ls : List Str) (rest : Str), ls ≠ [] → (∀ l ∈ ls, sep ∉ l) →
    splitChar sep (joinWith [sep] ls ++ sep :: rest) = ls ++ splitChar sep rest
  | [], _, h, _ => absurd rfl h
  | [a], rest, _, hs => by
    simp only [joinWith, List.cons_append, List.nil_append]
    exact splitChar_append_sep sep a rest (hs a (by simp))
  | a :: b :: r, rest, _, hs => by
    have ha := hs a (by simp)
    have ih := splitChar_join_append sep (b :: r) rest (by simp) (fun l hl => hs l (by simp [hl]))
    simp only [joinWith, List.append_assoc, List.cons_append, List.nil_append]
    rw [splitChar_append_sep sep a _ ha, ih]
    simp

def trimBlank (ls : List Str) : List Str := ((ls.dropWhile blankLine).reverse.dropWhile blankLine).reverse

theorem trimRawContent_eq (s : Str) : trimRawContent s = joinWith ['\n'] (trimBlank (splitChar '\n' s)) := rfl

theorem dropWhile_head_false {α : Type} (p : α → Bool) : ∀ (l : List α) (x : α) (r : List α), l.dropWhile p = x :: r → p x = false
  | [], _, _, h => by simp at h
  | a :: l, x, r, h => by
    simp only [List.dropWhile] at h
    cases ha : p a with
    | true => simp only [ha] at h; exact dropWhile_head_false p l x r h
    | false => simp only [ha] at h; cases h; exact ha

theorem dropWhile_of_head_false {α : Type} (p : α → Bool) (x : α) (r : List α) (h : p x = false) : (x :: r).dropWhile p = x :: r := by
  simp [List.dropWhile, h]

/-- the trimmed list starts and ends with a non-blank line (when it is not empty) -/
theorem trimBlank_last (ls : List Str) (x : Str) (r : List Str) (h : (trimBlank ls).reverse = x :: r) : blankLine x = false := by
  unfold trimBlank at h
  simp only [List.reverse_reverse] at h
  exact dropWhile_head_false blankLine _ x r h

theorem trimBlank_first (ls : List Str) (x : Str) (r : List Str) (h : trimBlank ls = x :: r) : blankLine x = false := by
  unfold trimBlank at h
  -- the result is a prefix of `ls.dropWhile blankLine`, and it is not empty: same head
  have hsuf : ((ls.dropWhile blankLine).reverse.dropWhile blankLine) <:+ (ls.dropWhile blankLine).reverse := List.dropWhile_suffix _
  obtain ⟨pre, hpre⟩ := hsuf
  have hrev : ls.dropWhile blankLine = ((ls.dropWhile blankLine).reverse.dropWhile blankLine).reverse ++ pre.reverse := by
    have := congrArg List.reverse hpre
    simpa using this.symm
  rw [h] at hrev
  exact dropWhile_head_false blankLine ls x (r ++ pre.reverse) (by simpa using hrev)

theorem blank_nil : blankLine [] = true := by decide

/-- trimming is stable under a blank line in front and a blank line behind -/
theorem trimBlank_wrapped (K : List Str) (ind : Str) (hK : K ≠ []) (hfirst : ∀ x r, K = x :: r → blankLine x = false)
    (hlast : ∀ x r, K.reverse = x :: r → blankLine x = false) (hind : blankLine ind = true) :
    trimBlank ([] :: K ++ [ind]) = K := by
  unfold trimBlank
  obtain ⟨x, r, hxr⟩ : ∃ x r, K = x :: r := by
    cases K with
    | nil => exact absurd rfl hK
    | cons x r => exact ⟨x, r, rfl⟩
  have h1 : ([] :: K ++ [ind]).dropWhile blankLine = K ++ [ind] := by
    simp only [List.cons_append, List.dropWhile, blank_nil]
    rw [hxr]
    simp [List.dropWhile, hfirst x r hxr]
  rw [h1]
  have h2 : (K ++ [ind]).reverse = ind :: K.reverse := by simp
  rw [h2]
  obtain ⟨y, t, hyt⟩ : ∃ y t, K.reverse = y :: t := by
    cases hr : K.reverse with
    | nil => simp at hr; exact absurd hr hK
    | cons y t => exact ⟨y, t, rfl⟩
  have h3 : (ind :: K.reverse).dropWhile blankLine = K.reverse := by
    simp only [List.dropWhile, hind]
    rw [hyt]
    simp [List.dropWhile, hlast y t hyt]
  rw [h3]
  simp

end Vuego.FmtTree
