import Vuego.Lemmas.EvalFrame
namespace Vuego
open Go

theorem bindR_ok {α β : Type} {r : R α} {k : α → St → R β} {x : β × St} (h : bindR r k = .ok x) :
    ∃ a st1, r = .ok (a, st1) ∧ k a st1 = .ok x := by
  cases r with
  | ok p => obtain ⟨a, st1⟩ := p; exact ⟨a, st1, rfl, h⟩
  | err c m => simp [bindR] at h
  | panic s => simp [bindR] at h
  | hang s => simp [bindR] at h
  | fuel => simp [bindR] at h

theorem bindE_ok {α β : Type} {r : Res α} {k : α → R β} {x : β × St} (h : bindE r k = .ok x) :
    ∃ a, r = .ok a ∧ k a = .ok x := by
  cases r with
  | ok a => exact ⟨a, rfl, h⟩
  | err c m => simp [bindE] at h
  | panic s => simp [bindE] at h
  | hang s => simp [bindE] at h
  | fuel => simp [bindE] at h

theorem prepend_ok {res : List Node} {r : R (List Node)} {out : List Node} {st' : St} (h : prepend res r = .ok (out, st')) :
    ∃ o, r = .ok (o, st') ∧ out = res ++ o := by
  obtain ⟨a, st1, hr, hk⟩ := bindR_ok h
  simp only [Res.ok.injEq, Prod.mk.injEq] at hk
  obtain ⟨rfl, rfl⟩ := hk
  exact ⟨a, hr, rfl⟩

theorem foldl_set_frame {ι : Type} (l : List ι) (g : Stack → ι → Stack) (hg : ∀ s i, s.scopes ≠ [] → StackFrame s (g s i))
    (s : Stack) (hs : s.scopes ≠ []) : StackFrame s (l.foldl g s) := by
  induction l generalizing s with
  | nil => exact StackFrame.refl s
  | cons i r ih =>
    simp only [List.foldl_cons]
    have h1 := hg s i hs
    exact h1.trans (ih _ (h1.nonempty hs))

theorem setTemplateBound_frame (P : Params) (attrs : List Attr) (s : Stack) (hs : s.scopes ≠ []) :
    StackFrame s (setTemplateBound P attrs s) := by
  unfold setTemplateBound
  apply foldl_set_frame _ _ _ s hs
  intro sk a hsk
  cases isBoundKey a.1 with
  | none => exact StackFrame.refl sk
  | some name =>
    simp only []
    split
    · exact set_frame sk hsk _ _
    · split
      · exact set_frame sk hsk _ _
      · exact set_frame sk hsk _ _

theorem castErr_ne_ok {α β : Type} (r : Res α) (x : β) (hr : ∀ a, r ≠ .ok a) : (r.castErr : Res β) ≠ .ok x := by
  cases r with
  | ok a => exact absurd rfl (hr a)
  | err c m => simp [Res.castErr]
  | panic s => simp [Res.castErr]
  | hang s => simp [Res.castErr]
  | fuel => simp [Res.castErr]

theorem setTemplateAttr_frame (P : Params) (jd : Str → Option Val) (sk sk' : Stack) (a : Attr) (hs : sk.scopes ≠ [])
    (h : setTemplateAttr P jd sk a = .ok sk') : StackFrame sk sk' := by
  unfold setTemplateAttr at h
  simp only [] at h
  by_cases h1 : hasPrefix a.1 (S "v-") = true
  · simp only [h1, ↓reduceIte, Res.ok.injEq] at h; subst h; exact StackFrame.refl sk
  · simp only [h1, Bool.false_eq_true, ↓reduceIte] at h
    by_cases h2 : hasPrefix a.1 [':'] = true
    · simp only [h2, ↓reduceIte] at h
      by_cases h3 : (List.drop 1 a.1 == S "require" || List.drop 1 a.1 == S "required") = true
      · simp only [h3, ↓reduceIte, Res.ok.injEq] at h; subst h; exact StackFrame.refl sk
      · simp only [h3, Bool.false_eq_true, ↓reduceIte] at h
        cases hp : evalPipe P sk (parsePipeExpr (trimSpace a.2)) with
        | ok v => simp only [hp, Res.ok.injEq] at h; subst h; exact set_frame sk hs _ _
        | err c m =>
          simp only [hp] at h
          cases he : P.exprEval (trimSpace a.2) (sk.envMap P.cfg) with
          | ok v => simp only [he, Res.ok.injEq] at h; subst h; exact set_frame sk hs _ _
          | err c2 m2 =>
            simp only [he] at h
            cases hr : sk.resolve P.cfg (trimSpace a.2) with
            | ok o =>
              cases o with
              | some v => simp only [hr, Res.ok.injEq] at h; subst h; exact set_frame sk hs _ _
              | none => simp only [hr, Res.ok.injEq] at h; subst h; exact set_frame sk hs _ _
            | err c3 m3 => simp [hr, Res.castErr] at h
            | panic x => simp [hr, Res.castErr] at h
            | hang x => simp [hr, Res.castErr] at h
            | fuel => simp [hr, Res.castErr] at h
          | panic x => simp [he, Res.castErr] at h
          | hang x => simp [he, Res.castErr] at h
          | fuel => simp [he, Res.castErr] at h
        | panic x => simp [hp, Res.castErr] at h
        | hang x => simp [hp, Res.castErr] at h
        | fuel => simp [hp, Res.castErr] at h
    · simp only [h2, Bool.false_eq_true, ↓reduceIte] at h
      split at h
      · split at h <;> (simp only [Res.ok.injEq] at h; subst h; exact set_frame sk hs _ _)
      · simp only [Res.ok.injEq] at h; subst h; exact set_frame sk hs _ _

theorem setTemplateAttrs_frame (P : Params) (jd : Str → Option Val) (attrs : List Attr) (sk sk' : Stack) (hs : sk.scopes ≠ [])
    (h : setTemplateAttrs P jd attrs sk = .ok sk') : StackFrame sk sk' := by
  induction attrs generalizing sk with
  | nil => simp only [setTemplateAttrs, Res.ok.injEq] at h; subst h; exact StackFrame.refl sk
  | cons a r ih =>
    simp only [setTemplateAttrs] at h
    cases h1 : setTemplateAttr P jd sk a with
    | ok s1 =>
      simp only [h1] at h
      have f1 := setTemplateAttr_frame P jd sk s1 a hs h1
      exact f1.trans (ih s1 (f1.nonempty hs) h)
    | err c m => simp [h1] at h
    | panic x => simp [h1] at h
    | hang x => simp [h1] at h
    | fuel => simp [h1] at h

theorem push_nonempty (s : Stack) (m : Scope) : (s.push m).scopes ≠ [] := by simp [Stack.push]

theorem slotScopeStack_frame (s : Stack) (sv : Str) (props : Scope) : StackFrame (s.push []) (slotScopeStack s sv props) := by
  unfold slotScopeStack
  simp only []
  cases destructuredNames sv with
  | some names =>
    simp only []
    apply foldl_set_frame _ _ _ _ (push_nonempty s [])
    intro k nm hk
    cases Scope.get props nm with
    | none => exact StackFrame.refl k
    | some v => exact set_frame k hk _ _
  | none =>
    simp only []
    split
    · exact set_frame _ (push_nonempty s []) _ _
    · exact setMany_frame _ (push_nonempty s []) _

theorem loopStack_frame (s sk : Stack) (vars : List Str) (x : Val) (i : Nat) (h : loopStack s vars x i = some sk) :
    StackFrame (s.push []) sk := by
  unfold loopStack at h
  simp only [] at h
  match vars, h with
  | [v], h =>
    simp only [Option.some.injEq] at h; subst h
    exact set_frame _ (push_nonempty s []) _ _
  | [iv, v], h =>
    simp only [Option.some.injEq] at h; subst h
    have f1 := set_frame (s.push []) (push_nonempty s []) iv (Val.int .int i)
    exact f1.trans (set_frame _ (f1.nonempty (push_nonempty s [])) v x)
  | [], h => simp at h
  | _ :: _ :: _ :: _, h => simp at h

theorem push_depth (s : Stack) (m : Scope) (hs : s.scopes ≠ []) : 2 ≤ (s.push m).scopes.length := by
  have : 0 < s.scopes.length := List.length_pos_iff.mpr hs
  simp only [Stack.push, List.length_append, List.length_singleton]; omega

/-- the statement proved for each evaluator function at a given fuel -/
structure FrameAt (W : World) (f : Nat) : Prop where
  list : ∀ ctx st nodes out st', st.stack.scopes ≠ [] → evalList W f ctx st nodes = .ok (out, st') → Frame st st'
  plain : ∀ ctx st tag attrs kids out st', st.stack.scopes ≠ [] → evalPlain W f ctx st tag attrs kids = .ok (out, st') → Frame st st'
  asElem : ∀ ctx st tag attrs kids out st', st.stack.scopes ≠ [] → evalAsElement W f ctx st tag attrs kids = .ok (out, st') → Frame st st'
  vfor : ∀ ctx st tag attrs kids rest out st', st.stack.scopes ≠ [] → evalVFor W f ctx st tag attrs kids rest = .ok (out, st') → Frame st st'
  for_ : ∀ ctx st tag attrs kids e out st', st.stack.scopes ≠ [] → evalFor W f ctx st tag attrs kids e = .ok (out, st') → Frame st st'
  items : ∀ ctx st tag attrs kids vars xs i out st', st.stack.scopes ≠ [] → evalForItems W f ctx st tag attrs kids vars xs i = .ok (out, st') → Frame st st'
  tmpl : ∀ ctx st attrs kids out st', st.stack.scopes ≠ [] → evalTemplate W f ctx st attrs kids = .ok (out, st') → Frame st st'
  incl : ∀ ctx st attrs kids vars out st', st.stack.scopes ≠ [] → evalInclude W f ctx st attrs kids vars = .ok (out, st') → st'.stack = st.stack ∧ ∀ x ∈ st.seen, x ∈ st'.seen
  slot : ∀ ctx st attrs kids out st', st.stack.scopes ≠ [] → evalSlot W f ctx st attrs kids = .ok (out, st') → Frame st st'

theorem frame_of_eq_stack {st st' : St} (h : st'.stack = st.stack ∧ ∀ x ∈ st.seen, x ∈ st'.seen) : Frame st st' :=
  ⟨by rw [h.1]; exact StackFrame.refl _, h.2⟩

theorem frameAt_zero (W : World) : FrameAt W 0 := by
  constructor <;> intros <;> simp_all [evalList, evalPlain, evalAsElement, evalVFor, evalFor, evalForItems, evalTemplate, evalInclude, evalSlot]

end Vuego

namespace Vuego
open Go

theorem frame_list_step (W : World) (f : Nat) (ih : FrameAt W f) :
    ∀ ctx st nodes out st', st.stack.scopes ≠ [] → evalList W (f + 1) ctx st nodes = .ok (out, st') → Frame st st' := by
  intro ctx st nodes out st' hs h
  cases nodes with
  | nil =>
    simp only [evalList, Res.ok.injEq, Prod.mk.injEq] at h
    rw [← h.2]; exact Frame.refl st
  | cons n rest =>
    cases n with
    | text d =>
      simp only [evalList] at h
      cases hi : interpolate W.P st.stack d with
      | ok t =>
        simp only [hi] at h
        obtain ⟨o, ho, _⟩ := prepend_ok h
        exact ih.list _ _ _ _ _ hs ho
      | err c m => simp [hi] at h
      | panic x => simp [hi, Res.castErr] at h
      | hang x => simp [hi, Res.castErr] at h
      | fuel => simp [hi, Res.castErr] at h
    | comment d =>
      simp only [evalList] at h
      obtain ⟨o, ho, _⟩ := prepend_ok h
      exact ih.list _ _ _ _ _ hs ho
    | doctype d =>
      simp only [evalList] at h
      obtain ⟨o, ho, _⟩ := prepend_ok h
      exact ih.list _ _ _ _ _ hs ho
    | elem tag attrs kids =>
      simp only [evalList] at h
      split at h
      · exact ih.list _ _ _ _ _ hs h
      · -- the state after the v-once bookkeeping
        generalize hst2 : (if onceHereOf attrs = true then
            ({ st with seen := st.seen ++ [getAttr attrs (S "v-once-id")] } : St) else st) = st2 at h
        have hf2 : Frame st st2 := by
          rw [← hst2]; split
          · exact ⟨StackFrame.refl _, fun x hx => by simp [hx]⟩
          · exact Frame.refl st
        have hs2 : st2.stack.scopes ≠ [] := hf2.1.nonempty hs
        have hstack2 : st2.stack = st.stack := by rw [← hst2]; split <;> rfl
        split at h
        · obtain ⟨o, ho, _⟩ := prepend_ok h
          exact hf2.trans (ih.list _ _ _ _ _ hs2 ho)
        · split at h
          · exact hf2.trans (ih.list _ _ _ _ _ hs2 h)
          · split at h
            · obtain ⟨rs, st1, h1, hk⟩ := bindR_ok h
              obtain ⟨o, ho, _⟩ := prepend_ok hk
              have f1 := ih.vfor _ _ _ _ _ _ _ _ hs2 h1
              exact hf2.trans (f1.trans (ih.list _ _ _ _ _ (f1.1.nonempty hs2) ho))
            · split at h
              · obtain ⟨ps, h1, hk⟩ := bindE_ok h
                split at hk
                · exact hf2.trans (ih.list _ _ _ _ _ hs2 hk)
                · split at hk
                  · exact hf2.trans (ih.list _ _ _ _ _ hs2 hk)
                  · rename_i st3 hg
                    have fg := onceGate_frame hg
                    obtain ⟨res, st1, h2, hk2⟩ := bindR_ok hk
                    obtain ⟨o, ho, _⟩ := prepend_ok hk2
                    have hs3 := fg.1.nonempty hs2
                    have f1 := ih.asElem _ _ _ _ _ _ _ hs3 h2
                    exact hf2.trans (fg.trans (f1.trans (ih.list _ _ _ _ _ (f1.1.nonempty hs3) ho)))
                · split at hk
                  · split at hk
                    · exact hf2.trans (ih.list _ _ _ _ _ hs2 hk)
                    · rename_i st3 hg
                      have fg := onceGate_frame hg
                      obtain ⟨res, st1, h2, hk2⟩ := bindR_ok hk
                      obtain ⟨o, ho, _⟩ := prepend_ok hk2
                      have hs3 := fg.1.nonempty hs2
                      have f1 := ih.asElem _ _ _ _ _ _ _ hs3 h2
                      exact hf2.trans (fg.trans (f1.trans (ih.list _ _ _ _ _ (f1.1.nonempty hs3) ho)))
                  · exact hf2.trans (ih.list _ _ _ _ _ hs2 hk)
              · split at h
                · obtain ⟨res, st1, h1, hk⟩ := bindR_ok h
                  obtain ⟨o, ho, _⟩ := prepend_ok hk
                  have f1 := ih.slot _ _ _ _ _ _ hs2 h1
                  exact hf2.trans (f1.trans (ih.list _ _ _ _ _ (f1.1.nonempty hs2) ho))
                · split at h
                  · obtain ⟨res, st1, h1, hk⟩ := bindR_ok h
                    obtain ⟨o, ho, _⟩ := prepend_ok hk
                    have f1 := ih.tmpl _ _ _ _ _ _ hs2 h1
                    exact hf2.trans (f1.trans (ih.list _ _ _ _ _ (f1.1.nonempty hs2) ho))
                  · obtain ⟨res, st1, h1, hk⟩ := bindR_ok h
                    obtain ⟨o, ho, _⟩ := prepend_ok hk
                    have f1 := ih.plain _ _ _ _ _ _ _ hs2 h1
                    exact hf2.trans (f1.trans (ih.list _ _ _ _ _ (f1.1.nonempty hs2) ho))

end Vuego

namespace Vuego
open Go

theorem frame_plain_step (W : World) (f : Nat) (ih : FrameAt W f) :
    ∀ ctx st tag attrs kids out st', st.stack.scopes ≠ [] → evalPlain W (f + 1) ctx st tag attrs kids = .ok (out, st') → Frame st st' := by
  intro ctx st tag attrs kids out st' hs h
  simp only [evalPlain] at h
  obtain ⟨pr, _, hk⟩ := bindE_ok h
  split at hk
  · simp only [Res.ok.injEq, Prod.mk.injEq] at hk; rw [← hk.2]; exact Frame.refl st
  · obtain ⟨ks, st1, h1, hk2⟩ := bindR_ok hk
    simp only [Res.ok.injEq, Prod.mk.injEq] at hk2
    rw [← hk2.2]
    exact ih.list _ _ _ _ _ hs h1

theorem frame_asElem_step (W : World) (f : Nat) (ih : FrameAt W f) :
    ∀ ctx st tag attrs kids out st', st.stack.scopes ≠ [] → evalAsElement W (f + 1) ctx st tag attrs kids = .ok (out, st') → Frame st st' := by
  intro ctx st tag attrs kids out st' hs h
  simp only [evalAsElement] at h
  split at h
  · exact ih.for_ _ _ _ _ _ _ _ _ hs h
  · split at h
    · exact ih.slot _ _ _ _ _ _ hs h
    · split at h
      · split at h
        · exact ih.tmpl _ _ _ _ _ _ hs h
        · have f0 := setTemplateBound_frame W.P attrs st.stack hs
          have := ih.list _ _ _ _ _ (f0.nonempty hs) h
          exact (St.frame_of_stack f0).trans this
      · exact ih.plain _ _ _ _ _ _ _ hs h

theorem frame_vfor_step (W : World) (f : Nat) (ih : FrameAt W f) :
    ∀ ctx st tag attrs kids rest out st', st.stack.scopes ≠ [] → evalVFor W (f + 1) ctx st tag attrs kids rest = .ok (out, st') → Frame st st' := by
  intro ctx st tag attrs kids rest out st' hs h
  simp only [evalVFor] at h
  split at h
  · simp only [Res.ok.injEq, Prod.mk.injEq] at h; rw [← h.2]; exact Frame.refl st
  · obtain ⟨loopNodes, st1, h1, hk⟩ := bindR_ok h
    have f1 := ih.for_ _ _ _ _ _ _ _ _ hs h1
    split at hk
    · simp only [Res.ok.injEq, Prod.mk.injEq] at hk; rw [← hk.2]; exact f1
    · split at hk
      · split at hk
        · split at hk
          · simp only [Res.ok.injEq, Prod.mk.injEq] at hk; rw [← hk.2]; exact f1
          · rename_i st3 hg
            have fg := onceGate_frame hg
            obtain ⟨res, st2, h2, hk2⟩ := bindR_ok hk
            simp only [Res.ok.injEq, Prod.mk.injEq] at hk2
            rw [← hk2.2]
            exact f1.trans (fg.trans (ih.asElem _ _ _ _ _ _ _ (fg.1.nonempty (f1.1.nonempty hs)) h2))
        · simp only [Res.ok.injEq, Prod.mk.injEq] at hk; rw [← hk.2]; exact f1
      · simp only [Res.ok.injEq, Prod.mk.injEq] at hk; rw [← hk.2]; exact f1

theorem frame_for_step (W : World) (f : Nat) (ih : FrameAt W f) :
    ∀ ctx st tag attrs kids e out st', st.stack.scopes ≠ [] → evalFor W (f + 1) ctx st tag attrs kids e = .ok (out, st') → Frame st st' := by
  intro ctx st tag attrs kids e out st' hs h
  simp only [evalFor] at h
  obtain ⟨vc, _, hk⟩ := bindE_ok h
  obtain ⟨coll, _, hk2⟩ := bindE_ok hk
  split at hk2
  · exact ih.items _ _ _ _ _ _ _ _ _ _ hs hk2
  · exact ih.items _ _ _ _ _ _ _ _ _ _ hs hk2
  · simp only [Res.ok.injEq, Prod.mk.injEq] at hk2; rw [← hk2.2]; exact Frame.refl st

theorem frame_items_step (W : World) (f : Nat) (ih : FrameAt W f) :
    ∀ ctx st tag attrs kids vars xs i out st', st.stack.scopes ≠ [] → evalForItems W (f + 1) ctx st tag attrs kids vars xs i = .ok (out, st') → Frame st st' := by
  intro ctx st tag attrs kids vars xs i out st' hs h
  cases xs with
  | nil => simp only [evalForItems, Res.ok.injEq, Prod.mk.injEq] at h; rw [← h.2]; exact Frame.refl st
  | cons x rest =>
    simp only [evalForItems] at h
    cases hl : loopStack st.stack vars x i with
    | none => simp [hl] at h
    | some sk =>
      simp only [hl] at h
      obtain ⟨res, st1, h1, hk⟩ := bindR_ok h
      obtain ⟨o, ho, _⟩ := prepend_ok hk
      have fpush := loopStack_frame st.stack sk vars x i hl
      have hsk : sk.scopes ≠ [] := fpush.nonempty (push_nonempty _ _)
      have f1 := ih.list _ { st with stack := sk } _ _ _ hsk h1
      -- stack after the body: a frame over the pushed stack; propagation; pop
      have fbody : StackFrame (st.stack.push []) st1.stack := fpush.trans f1.1
      have hdepth : 2 ≤ st1.stack.scopes.length := by rw [fbody.1]; exact push_depth _ _ hs
      have fprop := propagateNode_frame W.P.cfg st1.stack (.elem tag attrs kids) hdepth
      have fpop := pop_of_frame_push_prop st.stack st1.stack _ [] hs fbody fprop
      have fr : Frame st { st1 with stack := (propagateNode W.P.cfg st1.stack (.elem tag attrs kids)).pop } := ⟨fpop, f1.2⟩
      exact fr.trans (ih.items _ _ _ _ _ _ _ _ _ _ (fpop.nonempty hs) ho)

theorem frame_tmpl_step (W : World) (f : Nat) (ih : FrameAt W f) :
    ∀ ctx st attrs kids out st', st.stack.scopes ≠ [] → evalTemplate W (f + 1) ctx st attrs kids = .ok (out, st') → Frame st st' := by
  intro ctx st attrs kids out st' hs h
  simp only [evalTemplate] at h
  split at h
  · obtain ⟨av, _, hk⟩ := bindE_ok h
    exact frame_of_eq_stack (ih.incl _ _ _ _ _ _ _ hs hk)
  · split at h
    · cases h
    · obtain ⟨hh, _, hk⟩ := bindE_ok h
      split at hk
      · simp only [Res.ok.injEq, Prod.mk.injEq] at hk; rw [← hk.2]; exact Frame.refl st
      · split at hk
        · simp only [Res.ok.injEq, Prod.mk.injEq] at hk; rw [← hk.2]; exact Frame.refl st
        · obtain ⟨sk, h1, hk2⟩ := bindE_ok hk
          have f0 := setTemplateAttrs_frame W.P W.jsonDecode attrs st.stack sk hs h1
          exact (St.frame_of_stack f0).trans (ih.list _ _ _ _ _ (f0.nonempty hs) hk2)

theorem frame_incl_step (W : World) (f : Nat) (ih : FrameAt W f) :
    ∀ ctx st attrs kids vars out st', st.stack.scopes ≠ [] → evalInclude W (f + 1) ctx st attrs kids vars = .ok (out, st') →
      st'.stack = st.stack ∧ ∀ x ∈ st.seen, x ∈ st'.seen := by
  intro ctx st attrs kids vars out st' hs h
  simp only [evalInclude] at h
  split at h
  · cases h
  · split at h
    · cases h
    · rename_i fm dom _
      split at h
      · cases h
      · obtain ⟨res, st1, h1, hk⟩ := bindR_ok h
        simp only [Res.ok.injEq, Prod.mk.injEq] at hk
        rw [← hk.2]
        have fpush : StackFrame (st.stack.push vars) (setMany (st.stack.push vars) fm) := setMany_frame _ (push_nonempty _ _) _
        have f1 := ih.list _ { st with stack := setMany (st.stack.push vars) fm } _ _ _ (fpush.nonempty (push_nonempty _ _)) h1
        exact ⟨pop_of_frame_push st.stack st1.stack vars hs (fpush.trans f1.1), f1.2⟩

theorem frame_slot_step (W : World) (f : Nat) (ih : FrameAt W f) :
    ∀ ctx st attrs kids out st', st.stack.scopes ≠ [] → evalSlot W (f + 1) ctx st attrs kids = .ok (out, st') → Frame st st' := by
  intro ctx st attrs kids out st' hs h
  simp only [evalSlot] at h
  split at h
  · -- a slot scope exists
    split at h
    · -- content supplied for this name: evaluated with the outer scopes
      split at h
      · obtain ⟨res, st1, h1, hk⟩ := bindR_ok h
        simp only [Res.ok.injEq, Prod.mk.injEq] at hk
        rw [← hk.2]
        rename_i tk _
        have fpush := slotScopeStack_frame st.stack (scopedVarName tk.1) (slotProps W.P (st.stack.envMap W.P.cfg) attrs)
        have f1 := ih.list _ { st with stack := slotScopeStack st.stack (scopedVarName tk.1) (slotProps W.P (st.stack.envMap W.P.cfg) attrs) } _ _ _ (fpush.nonempty (push_nonempty _ _)) h1
        exact frame_of_eq_stack ⟨pop_of_frame_push st.stack st1.stack [] hs (fpush.trans f1.1), f1.2⟩
      · exact ih.list _ _ _ _ _ hs h
    · split at h
      · -- content the page handed to its layout: evaluated like supplied content
        split at h
        · obtain ⟨res, st1, h1, hk⟩ := bindR_ok h
          simp only [Res.ok.injEq, Prod.mk.injEq] at hk
          rw [← hk.2]
          rename_i tk _
          have fpush := slotScopeStack_frame st.stack (scopedVarName tk.1) (slotProps W.P (st.stack.envMap W.P.cfg) attrs)
          have f1 := ih.list _ { st with stack := slotScopeStack st.stack (scopedVarName tk.1) (slotProps W.P (st.stack.envMap W.P.cfg) attrs) } _ _ _ (fpush.nonempty (push_nonempty _ _)) h1
          exact frame_of_eq_stack ⟨pop_of_frame_push st.stack st1.stack [] hs (fpush.trans f1.1), f1.2⟩
        · exact ih.list _ _ _ _ _ hs h
      · split at h
        · exact ih.list _ _ _ _ _ hs h
        · simp only [Res.ok.injEq, Prod.mk.injEq] at h; rw [← h.2]; exact Frame.refl st
  · split at h
    ·
      split at h
      · obtain ⟨res, st1, h1, hk⟩ := bindR_ok h
        simp only [Res.ok.injEq, Prod.mk.injEq] at hk
        rw [← hk.2]
        rename_i tk _
        have fpush := slotScopeStack_frame st.stack (scopedVarName tk.1) (slotProps W.P (st.stack.envMap W.P.cfg) attrs)
        have f1 := ih.list _ { st with stack := slotScopeStack st.stack (scopedVarName tk.1) (slotProps W.P (st.stack.envMap W.P.cfg) attrs) } _ _ _ (fpush.nonempty (push_nonempty _ _)) h1
        exact frame_of_eq_stack ⟨pop_of_frame_push st.stack st1.stack [] hs (fpush.trans f1.1), f1.2⟩
      · exact ih.list _ _ _ _ _ hs h
    · split at h
      · exact ih.list _ _ _ _ _ hs h
      · simp only [Res.ok.injEq, Prod.mk.injEq] at h; rw [← h.2]; exact Frame.refl st

/-- THE EVALUATOR INVARIANT: at every fuel, every evaluator function leaves the variable stack at its depth, never touches a scope below
    the top one nor the root data, and only adds to the v-once `seen` set; an include restores the stack exactly. -/
theorem frameAt (W : World) : ∀ f, FrameAt W f
  | 0 => frameAt_zero W
  | f + 1 =>
    have ih := frameAt W f
    ⟨frame_list_step W f ih, frame_plain_step W f ih, frame_asElem_step W f ih, frame_vfor_step W f ih, frame_for_step W f ih,
     frame_items_step W f ih, frame_tmpl_step W f ih, frame_incl_step W f ih, frame_slot_step W f ih⟩

end Vuego
