import Vuego.Model.Stack
namespace Vuego
open Go

/-! ### scopes as finite maps -/

theorem Scope.get_set (m : Scope) (k k' : Str) (v : Val) :
    Scope.get (Scope.set m k v) k' = if k' = k then some v else Scope.get m k' := by
  induction m with
  | nil =>
    simp only [Scope.set, Scope.get, List.lookup]
    by_cases h : k' = k
    · subst h; simp
    · have : (k' == k) = false := by simpa using h
      simp [this, h]
  | cons x r ih =>
    obtain ⟨k0, v0⟩ := x
    simp only [Scope.set]
    by_cases h0 : k0 = k
    · subst h0
      simp only [beq_self_eq_true, ↓reduceIte, Scope.get, List.lookup]
      by_cases h : k' = k0
      · subst h; simp
      · have : (k' == k0) = false := by simpa using h
        simp [this, h]
    · have hb : (k0 == k) = false := by simpa using h0
      simp only [hb, Bool.false_eq_true, ↓reduceIte, Scope.get, List.lookup]
      by_cases h : k' = k0
      · subst h
        have : ¬ k' = k := h0
        simp [this]
      · have : (k' == k0) = false := by simpa using h
        simp only [this]
        exact ih

/-! ### push / pop / set -/

namespace Stack

theorem pop_concat (l : List Scope) (m : Scope) (root : Val) (h : l ≠ []) :
    pop { scopes := l ++ [m], root := root } = { scopes := l, root := root } := by
  simp [pop, h]

theorem pop_push (s : Stack) (m : Scope) (h : s.scopes ≠ []) : (s.push m).pop = s := by
  cases s with
  | mk scopes root => exact pop_concat scopes m root h

theorem setTop_concat (l : List Scope) (m : Scope) (k : Str) (v : Val) :
    setTop (l ++ [m]) k v = l ++ [Scope.set m k v] := by
  induction l with
  | nil => simp [setTop]
  | cons a r ih =>
    cases r with
    | nil => simp [setTop]
    | cons b r' =>
      simp only [List.cons_append] at ih ⊢
      simp only [setTop]
      rw [ih]

theorem lookupScopes_reverse_concat (l : List Scope) (m : Scope) (k : Str) :
    lookupScopes (l ++ [m]).reverse k = match m.get k with | some v => some v | none => lookupScopes l.reverse k := by
  simp only [List.reverse_append, List.reverse_singleton, List.singleton_append, lookupScopes]
  cases m.get k <;> rfl

/-- an operation of the scope-stack interface -/
inductive Op where
  | push (m : Scope)
  | pop
  | set (k : Str) (v : Val)

def step (s : Stack) : Op → Stack
  | .push m => s.push m
  | .pop => s.pop
  | .set k v => s.set k v

def run (s : Stack) (ops : List Op) : Stack := ops.foldl step s

/-- relative depth bookkeeping: `none` as soon as a pop has no matching push inside `ops` -/
def relDepth : Nat → List Op → Option Nat
  | d, [] => some d
  | d, .push _ :: r => relDepth (d + 1) r
  | 0, .pop :: _ => none
  | d + 1, .pop :: r => relDepth d r
  | d, .set _ _ :: r => relDepth d r

theorem run_frame (base : List Scope) (ops : List Op) :
    ∀ (extra : List Scope) (root : Val) (d' : Nat), extra ≠ [] →
      relDepth (extra.length - 1) ops = some d' →
      ∃ extra', (run { scopes := base ++ extra, root := root } ops).scopes = base ++ extra' ∧ extra'.length = d' + 1 ∧
        (run { scopes := base ++ extra, root := root } ops).root = root := by
  induction ops with
  | nil =>
    intro extra root d' hne h
    simp only [relDepth, Option.some.injEq] at h
    refine ⟨extra, rfl, ?_, rfl⟩
    have : 0 < extra.length := List.length_pos_iff.mpr hne
    omega
  | cons op r ih =>
    intro extra root d' hne h
    have hl : 0 < extra.length := List.length_pos_iff.mpr hne
    cases op with
    | push m =>
      simp only [relDepth] at h
      have := ih (extra ++ [m]) root d' (by simp) (by simpa [show extra.length - 1 + 1 = extra.length from by omega] using h)
      simpa [run, step, push, List.append_assoc] using this
    | pop =>
      obtain ⟨pre, last, rfl⟩ : ∃ pre last, extra = pre ++ [last] := ⟨extra.dropLast, extra.getLast hne, (List.dropLast_concat_getLast hne).symm⟩
      simp only [List.length_append, List.length_singleton, Nat.add_sub_cancel] at h
      cases hp : pre with
      | nil => subst hp; simp [relDepth] at h
      | cons a pr =>
        subst hp
        simp only [List.length_cons, relDepth] at h
        have hpop : (pop { scopes := base ++ ((a :: pr) ++ [last]), root := root }) = { scopes := base ++ (a :: pr), root := root } := by
          have e : base ++ ((a :: pr) ++ [last]) = (base ++ (a :: pr)) ++ [last] := by simp
          rw [e]; exact pop_concat _ _ _ (by simp)
        have := ih (a :: pr) root d' (by simp) (by simpa using h)
        simp only [run, List.foldl_cons, step] at this ⊢
        rw [hpop]; exact this
    | set k v =>
      obtain ⟨pre, last, rfl⟩ : ∃ pre last, extra = pre ++ [last] := ⟨extra.dropLast, extra.getLast hne, (List.dropLast_concat_getLast hne).symm⟩
      simp only [relDepth] at h
      have hset : (Stack.set { scopes := base ++ (pre ++ [last]), root := root } k v) = { scopes := base ++ (pre ++ [Scope.set last k v]), root := root } := by
        simp only [Stack.set]
        rw [← List.append_assoc, setTop_concat, List.append_assoc]
      have := ih (pre ++ [Scope.set last k v]) root d' (by simp) (by simpa using h)
      simpa [run, step, hset] using this

end Stack

/-! ### path resolution against plain indexing -/

/-- the specification: what ordinary Go indexing of one step reaches (pointers followed, exported fields by name then by JSON tag) -/
def goIndex (cur : Val) (p : Str) : Option Val :=
  match derefPtr derefBound cur with
  | some (.map .nonStrKey _) => none
  | some (.map _ kvs) => kvs.lookup p
  | some (.list _ xs) => match atoi p with | some i => if i < 0 then none else xs[i.toNat]? | none => none
  | some (.strct fs) =>
    match fieldByName fs p with
    | some (true, v) => some v
    | _ => fieldByTagExported fs p
  | _ => none

def goodCfg : ReflectCfg :=
  { checksExported := true, checksKeyKind := true, strMapMissingAbsent := true, envStructFirst := true, envGoNames := true }

theorem derefPtr_nonptr (n : Nat) (v : Val) (h : ∀ t, v ≠ .ptr t) : derefPtr n v = some v := by
  cases n with
  | zero => rfl
  | succ n => cases v <;> simp_all [derefPtr]

theorem resolveValue_eq_goIndex (cur : Val) (p : Str) (hp : p ≠ []) :
    resolveValue goodCfg cur p = .ok (goIndex cur p) := by
  have hpb : (p == []) = false := by simpa using hp
  unfold resolveValue goIndex
  simp only [hpb, Bool.false_eq_true, ↓reduceIte]
  cases cur with
  | nil => simp [derefPtr_nonptr]
  | ptr t =>
    simp only []
    cases hd : derefPtr derefBound (.ptr t) with
    | none => rfl
    | some w =>
      cases w with
      | strct fs =>
        simp only [resolveStruct, goodCfg, ↓reduceIte]
        cases fieldByName fs p with
        | none => rfl
        | some be => obtain ⟨b, v⟩ := be; cases b <;> rfl
      | map mk kvs => cases mk <;> simp [goodCfg]
      | list a xs => simp only [resolveSliceIndex]; rfl
      | _ => rfl
  | strct fs =>
    simp only [derefPtr_nonptr _ (.strct fs) (by intro t h; cases h), resolveStruct, goodCfg, ↓reduceIte]
    cases fieldByName fs p with
    | none => rfl
    | some be => obtain ⟨b, v⟩ := be; cases b <;> rfl
  | map mk kvs =>
    simp only [derefPtr_nonptr _ (.map mk kvs) (by intro t h; cases h)]
    cases mk <;> simp [goodCfg]
  | list a xs =>
    simp only [derefPtr_nonptr _ (.list a xs) (by intro t h; cases h), resolveSliceIndex]; rfl
  | bool b => simp [derefPtr_nonptr]
  | int k n => simp [derefPtr_nonptr]
  | float k z q => simp [derefPtr_nonptr]
  | str s => simp [derefPtr_nonptr]
  | opaq t q => simp [derefPtr_nonptr]

end Vuego

namespace Vuego
open Go

/-! ### EnvMap -/

def Scope.WF (m : Scope) : Prop := (m.map (·.1)).Nodup

theorem Scope.get_none_of_not_mem (m : Scope) (k : Str) (h : k ∉ m.map (·.1)) : Scope.get m k = none := by
  induction m with
  | nil => rfl
  | cons x r ih =>
    obtain ⟨k0, v0⟩ := x
    simp only [List.map_cons, List.mem_cons, not_or] at h
    have : (k == k0) = false := by simpa using h.1
    simp only [Scope.get, List.lookup, this]
    exact ih h.2

theorem Scope.set_keys (m : Scope) (k : Str) (v : Val) (x : Str) :
    x ∈ (Scope.set m k v).map (·.1) ↔ x = k ∨ x ∈ m.map (·.1) := by
  induction m with
  | nil => simp [Scope.set]
  | cons y r ih =>
    obtain ⟨k0, v0⟩ := y
    simp only [Scope.set]
    by_cases h0 : k0 = k
    · subst h0; simp
    · have hb : (k0 == k) = false := by simpa using h0
      simp only [hb, Bool.false_eq_true, ↓reduceIte, List.map_cons, List.mem_cons, ih]
      constructor
      · rintro (h | h | h) <;> simp [h]
      · rintro (h | h | h) <;> simp [h]

theorem Scope.set_wf (m : Scope) (k : Str) (v : Val) (h : Scope.WF m) : Scope.WF (Scope.set m k v) := by
  induction m with
  | nil => simp [Scope.set, Scope.WF]
  | cons y r ih =>
    obtain ⟨k0, v0⟩ := y
    simp only [Scope.WF, List.map_cons, List.nodup_cons] at h
    simp only [Scope.set]
    by_cases h0 : k0 = k
    · subst h0
      simp only [beq_self_eq_true, ↓reduceIte, Scope.WF, List.map_cons, List.nodup_cons]
      exact h
    · have hb : (k0 == k) = false := by simpa using h0
      simp only [hb, Bool.false_eq_true, ↓reduceIte, Scope.WF, List.map_cons, List.nodup_cons]
      refine ⟨?_, ih h.2⟩
      intro hm
      rcases (Scope.set_keys r k v k0).mp hm with h1 | h1
      · exact h0 h1
      · exact h.1 h1

theorem Scope.get_foldl_set (m acc : Scope) (k : Str) (h : Scope.WF m) :
    Scope.get (m.foldl (fun a (kv : Str × Val) => Scope.set a kv.1 kv.2) acc) k =
      match Scope.get m k with | some v => some v | none => Scope.get acc k := by
  induction m generalizing acc with
  | nil => rfl
  | cons y r ih =>
    obtain ⟨k0, v0⟩ := y
    simp only [Scope.WF, List.map_cons, List.nodup_cons] at h
    simp only [List.foldl_cons]
    rw [ih _ h.2, Scope.get_set]
    by_cases hk : k = k0
    · subst hk
      have : Scope.get r k = none := Scope.get_none_of_not_mem r k h.1
      simp only [Scope.get] at this
      simp [this, Scope.get, List.lookup]
    · have hb : (k == k0) = false := by simpa using hk
      simp only [hk, ↓reduceIte, Scope.get, List.lookup, hb]

theorem Stack.get_mergeScopes (scopes : List Scope) (acc : Scope) (k : Str) (h : ∀ m ∈ scopes, Scope.WF m) :
    Scope.get (Stack.mergeScopes acc scopes) k =
      match Stack.lookupScopes scopes.reverse k with | some v => some v | none => Scope.get acc k := by
  induction scopes generalizing acc with
  | nil => rfl
  | cons m r ih =>
    simp only [Stack.mergeScopes]
    rw [ih _ (fun x hx => h x (List.mem_cons_of_mem _ hx))]
    rw [Scope.get_foldl_set _ _ _ (h m List.mem_cons_self)]
    have e : (m :: r).reverse = r.reverse ++ [m] := by simp
    rw [e]
    have hl : ∀ (l : List Scope), Stack.lookupScopes (l ++ [m]) k =
        match Stack.lookupScopes l k with | some v => some v | none => (match Scope.get m k with | some v => some v | none => none) := by
      intro l
      induction l with
      | nil => simp [Stack.lookupScopes]; cases Scope.get m k <;> rfl
      | cons a l' ihl =>
        simp only [List.cons_append, Stack.lookupScopes]
        cases Scope.get a k with
        | some v => rfl
        | none => exact ihl
    rw [hl]
    cases Stack.lookupScopes r.reverse k with
    | some v => rfl
    | none => cases Scope.get m k <;> rfl

end Vuego
