/-
The evaluator model's answer does not depend on the fuel once there is one: if a call returns anything but `.fuel`, the same call with
more fuel returns the same thing. (`.fuel` is the model's own step bound; every theorem about the evaluator is stated for every fuel, and
the driver runs it with a fixed large one.)
-/
import Vuego.Model.Eval
set_option maxRecDepth 2000
namespace Vuego
open Go

/-- `r'` refines `r`: either `r` ran out of fuel, or they are the same result -/
def Le {α : Type} (r r' : Res α) : Prop := r = .fuel ∨ r = r'

theorem Le.refl {α : Type} (r : Res α) : Le r r := Or.inr rfl
theorem Le.fuel {α : Type} (r' : Res α) : Le (.fuel : Res α) r' := Or.inl rfl

theorem le_bindR {α β : Type} {r r' : R α} {k k' : α → St → R β} (h : Le r r') (hk : ∀ a st, Le (k a st) (k' a st)) :
    Le (bindR r k) (bindR r' k') := by
  rcases h with h | h
  · subst h; exact Or.inl rfl
  · subst h
    cases r with
    | ok a => exact hk a.1 a.2
    | err c m => exact Or.inr rfl
    | panic s => exact Or.inr rfl
    | hang s => exact Or.inr rfl
    | fuel => exact Or.inl rfl

theorem le_bindE {α β : Type} (r : Res α) {k k' : α → R β} (hk : ∀ a, Le (k a) (k' a)) : Le (bindE r k) (bindE r k') := by
  cases r with
  | ok a => exact hk a
  | err c m => exact Or.inr rfl
  | panic s => exact Or.inr rfl
  | hang s => exact Or.inr rfl
  | fuel => exact Or.inl rfl

theorem le_prepend (res : List Node) {r r' : R (List Node)} (h : Le r r') : Le (prepend res r) (prepend res r') :=
  le_bindR h (fun _ _ => Le.refl _)

structure MonoAt (W : World) (f : Nat) : Prop where
  list : ∀ ctx st ns, Le (evalList W f ctx st ns) (evalList W (f + 1) ctx st ns)
  plain : ∀ ctx st tag attrs kids, Le (evalPlain W f ctx st tag attrs kids) (evalPlain W (f + 1) ctx st tag attrs kids)
  asElem : ∀ ctx st tag attrs kids, Le (evalAsElement W f ctx st tag attrs kids) (evalAsElement W (f + 1) ctx st tag attrs kids)
  vfor : ∀ ctx st tag attrs kids rest, Le (evalVFor W f ctx st tag attrs kids rest) (evalVFor W (f + 1) ctx st tag attrs kids rest)
  for_ : ∀ ctx st tag attrs kids e, Le (evalFor W f ctx st tag attrs kids e) (evalFor W (f + 1) ctx st tag attrs kids e)
  items : ∀ ctx st tag attrs kids vars xs i, Le (evalForItems W f ctx st tag attrs kids vars xs i) (evalForItems W (f + 1) ctx st tag attrs kids vars xs i)
  tmpl : ∀ ctx st attrs kids, Le (evalTemplate W f ctx st attrs kids) (evalTemplate W (f + 1) ctx st attrs kids)
  incl : ∀ ctx st attrs kids vars, Le (evalInclude W f ctx st attrs kids vars) (evalInclude W (f + 1) ctx st attrs kids vars)
  slot : ∀ ctx st attrs kids, Le (evalSlot W f ctx st attrs kids) (evalSlot W (f + 1) ctx st attrs kids)

theorem monoAt_zero (W : World) : MonoAt W 0 where
  list := by intros; left; simp only [evalList]
  plain := by intros; left; simp only [evalPlain]
  asElem := by intros; left; simp only [evalAsElement]
  vfor := by intros; left; simp only [evalVFor]
  for_ := by intros; left; simp only [evalFor]
  items := by intros; left; simp only [evalForItems]
  tmpl := by intros; left; simp only [evalTemplate]
  incl := by intros; left; simp only [evalInclude]
  slot := by intros; left; simp only [evalSlot]

/-- the body of `evalList` for an element, after the v-once bookkeeping, as a function of the level-`f` evaluators -/
def elemBody (W : World) (f : Nat) (ctx : Ctx) (st : St) (tag : Str) (attrs : List Attr) (kids rest : List Node) : R (List Node) :=
  if hasAttr attrs (S "v-pre") then prepend [.elem tag attrs kids] (evalList W f ctx st rest)
  else if !hasAttr attrs (S "v-if") && (hasAttr attrs (S "v-else-if") || hasAttr attrs (S "v-else")) then evalList W f ctx st rest
  else if hasAttr attrs (S "v-for") then
    bindR (evalVFor W f ctx st tag attrs kids rest) (fun rs st1 => prepend rs.1 (evalList W f ctx st1 (rest.drop rs.2)))
  else if hasAttr attrs (S "v-if") then
    bindE (chainSelect (evalCondition W.P st.stack) (getAttr attrs (S "v-if")) rest) (fun ps =>
      match ps.1 with
      | .none => evalList W f ctx st (rest.drop ps.2)
      | .member 0 =>
        (match onceGate st attrs with
         | none => evalList W f ctx st (rest.drop ps.2)
         | some st' => bindR (evalAsElement W f ctx st' tag attrs kids) (fun res st1 => prepend res (evalList W f ctx st1 (rest.drop ps.2))))
      | .member (i + 1) =>
        match rest[i]? with
        | some (.elem t a k) =>
          (match onceGate st a with
           | none => evalList W f ctx st (rest.drop ps.2)
           | some st' => bindR (evalAsElement W f ctx st' t a k) (fun res st1 => prepend res (evalList W f ctx st1 (rest.drop ps.2))))
        | _ => evalList W f ctx st (rest.drop ps.2))
  else if tag == S "slot" then
    bindR (evalSlot W f ctx st attrs kids) (fun res st1 => prepend res (evalList W f ctx st1 rest))
  else if tag == S "template" then
    bindR (evalTemplate W f ctx st attrs kids) (fun res st1 =>
      prepend (if hasAttr attrs (S "v-keep") then [.elem tag (keptAttrs W.P st.stack attrs) res] else res) (evalList W f ctx st1 rest))
  else
    bindR (evalPlain W f ctx st tag attrs kids) (fun res st1 => prepend res (evalList W f ctx st1 rest))

theorem evalList_elem (W : World) (f : Nat) (ctx : Ctx) (st : St) (tag : Str) (attrs : List Attr) (kids rest : List Node) :
    evalList W (f + 1) ctx st (.elem tag attrs kids :: rest) =
      if onceHereOf attrs && st.seen.contains (getAttr attrs (S "v-once-id")) then evalList W f ctx st rest
      else elemBody W f ctx (if onceHereOf attrs then { st with seen := st.seen ++ [getAttr attrs (S "v-once-id")] } else st)
        tag attrs kids rest := by
  rw [evalList]
  rfl

theorem le_elemBody (W : World) (f : Nat) (ih : MonoAt W f) (ctx : Ctx) (st : St) (tag : Str) (attrs : List Attr) (kids rest : List Node) :
    Le (elemBody W f ctx st tag attrs kids rest) (elemBody W (f + 1) ctx st tag attrs kids rest) := by
  unfold elemBody
  split
  · exact le_prepend _ (ih.list _ _ _)
  · split
    · exact ih.list _ _ _
    · split
      · exact le_bindR (ih.vfor _ _ _ _ _ _) (fun _ _ => le_prepend _ (ih.list _ _ _))
      · split
        · apply le_bindE
          intro ps
          split
          · exact ih.list _ _ _
          · split
            · exact ih.list _ _ _
            · exact le_bindR (ih.asElem _ _ _ _ _) (fun _ _ => le_prepend _ (ih.list _ _ _))
          · split
            · split
              · exact ih.list _ _ _
              · exact le_bindR (ih.asElem _ _ _ _ _) (fun _ _ => le_prepend _ (ih.list _ _ _))
            · exact ih.list _ _ _
        · split
          · exact le_bindR (ih.slot _ _ _ _) (fun _ _ => le_prepend _ (ih.list _ _ _))
          · split
            · exact le_bindR (ih.tmpl _ _ _ _) (fun _ _ => le_prepend _ (ih.list _ _ _))
            · exact le_bindR (ih.plain _ _ _ _ _) (fun _ _ => le_prepend _ (ih.list _ _ _))

theorem mono_list_step (W : World) (f : Nat) (ih : MonoAt W f) : ∀ ctx st ns, Le (evalList W (f + 1) ctx st ns) (evalList W (f + 2) ctx st ns) := by
  intro ctx st ns
  cases ns with
  | nil => simp only [evalList]; exact Le.refl _
  | cons n rest =>
    cases n with
    | text d =>
      simp only [evalList]
      cases interpolate W.P st.stack d with
      | ok t => exact le_prepend _ (ih.list _ _ _)
      | err c m => exact Le.refl _
      | panic s => exact Le.refl _
      | hang s => exact Le.refl _
      | fuel => exact Le.refl _
    | comment d => simp only [evalList]; exact le_prepend _ (ih.list _ _ _)
    | doctype d => simp only [evalList]; exact le_prepend _ (ih.list _ _ _)
    | elem tag attrs kids =>
      rw [evalList_elem W (f + 1), evalList_elem W f]
      split
      · exact ih.list _ _ _
      · exact le_elemBody W f ih _ _ _ _ _ _

theorem mono_plain_step (W : World) (f : Nat) (ih : MonoAt W f) :
    ∀ ctx st tag attrs kids, Le (evalPlain W (f + 1) ctx st tag attrs kids) (evalPlain W (f + 2) ctx st tag attrs kids) := by
  intro ctx st tag attrs kids
  simp only [evalPlain]
  apply le_bindE
  intro pr
  split
  · exact Le.refl _
  · exact le_bindR (ih.list _ _ _) (fun _ _ => Le.refl _)

theorem mono_asElem_step (W : World) (f : Nat) (ih : MonoAt W f) :
    ∀ ctx st tag attrs kids, Le (evalAsElement W (f + 1) ctx st tag attrs kids) (evalAsElement W (f + 2) ctx st tag attrs kids) := by
  intro ctx st tag attrs kids
  simp only [evalAsElement]
  split
  · exact ih.for_ _ _ _ _ _ _
  · split
    · exact ih.slot _ _ _ _
    · split
      · split
        · exact ih.tmpl _ _ _ _
        · exact ih.list _ _ _
      · exact ih.plain _ _ _ _ _

theorem mono_vfor_step (W : World) (f : Nat) (ih : MonoAt W f) :
    ∀ ctx st tag attrs kids rest, Le (evalVFor W (f + 1) ctx st tag attrs kids rest) (evalVFor W (f + 2) ctx st tag attrs kids rest) := by
  intro ctx st tag attrs kids rest
  simp only [evalVFor]
  split
  · exact Le.refl _
  · apply le_bindR (ih.for_ _ _ _ _ _ _)
    intro loopNodes st1
    split
    · exact Le.refl _
    · split
      · split
        · split
          · exact Le.refl _
          · exact le_bindR (ih.asElem _ _ _ _ _) (fun _ _ => Le.refl _)
        · exact Le.refl _
      · exact Le.refl _

theorem mono_for_step (W : World) (f : Nat) (ih : MonoAt W f) :
    ∀ ctx st tag attrs kids e, Le (evalFor W (f + 1) ctx st tag attrs kids e) (evalFor W (f + 2) ctx st tag attrs kids e) := by
  intro ctx st tag attrs kids e
  simp only [evalFor]
  apply le_bindE
  intro vc
  apply le_bindE
  intro coll
  split
  · exact ih.items _ _ _ _ _ _ _ _
  · exact ih.items _ _ _ _ _ _ _ _
  · exact Le.refl _

theorem mono_items_step (W : World) (f : Nat) (ih : MonoAt W f) :
    ∀ ctx st tag attrs kids vars xs i, Le (evalForItems W (f + 1) ctx st tag attrs kids vars xs i) (evalForItems W (f + 2) ctx st tag attrs kids vars xs i) := by
  intro ctx st tag attrs kids vars xs i
  cases xs with
  | nil => rw [evalForItems, evalForItems]; exact Le.refl _
  | cons x xs =>
    rw [evalForItems, evalForItems]
    split
    · exact Le.refl _
    · exact le_bindR (ih.list _ _ _) (fun _ _ => le_prepend _ (ih.items _ _ _ _ _ _ _ _))

theorem mono_tmpl_step (W : World) (f : Nat) (ih : MonoAt W f) :
    ∀ ctx st attrs kids, Le (evalTemplate W (f + 1) ctx st attrs kids) (evalTemplate W (f + 2) ctx st attrs kids) := by
  intro ctx st attrs kids
  simp only [evalTemplate]
  split
  · exact le_bindE _ (fun _ => ih.incl _ _ _ _ _)
  · split
    · exact Le.refl _
    · apply le_bindE
      intro h
      split
      · exact Le.refl _
      · split
        · exact Le.refl _
        · exact le_bindE _ (fun _ => ih.list _ _ _)

theorem mono_incl_step (W : World) (f : Nat) (ih : MonoAt W f) :
    ∀ ctx st attrs kids vars, Le (evalInclude W (f + 1) ctx st attrs kids vars) (evalInclude W (f + 2) ctx st attrs kids vars) := by
  intro ctx st attrs kids vars
  simp only [evalInclude]
  split
  · exact Le.refl _
  · split
    · exact Le.refl _
    · split
      · exact Le.refl _
      · exact le_bindR (ih.list _ _ _) (fun _ _ => Le.refl _)

theorem mono_slot_step (W : World) (f : Nat) (ih : MonoAt W f) :
    ∀ ctx st attrs kids, Le (evalSlot W (f + 1) ctx st attrs kids) (evalSlot W (f + 2) ctx st attrs kids) := by
  intro ctx st attrs kids
  simp only [evalSlot]
  split
  · split
    · split
      · exact le_bindR (ih.list _ _ _) (fun _ _ => Le.refl _)
      · exact ih.list _ _ _
    · split
      · split
        · exact le_bindR (ih.list _ _ _) (fun _ _ => Le.refl _)
        · exact ih.list _ _ _
      · split
        · exact ih.list _ _ _
        · exact Le.refl _
  · split
    · split
      · exact le_bindR (ih.list _ _ _) (fun _ _ => Le.refl _)
      · exact ih.list _ _ _
    · split
      · exact ih.list _ _ _
      · exact Le.refl _

theorem monoAt_all (W : World) : ∀ f, MonoAt W f
  | 0 => monoAt_zero W
  | f + 1 =>
    have ih := monoAt_all W f
    { list := mono_list_step W f ih, plain := mono_plain_step W f ih, asElem := mono_asElem_step W f ih,
      vfor := mono_vfor_step W f ih, for_ := mono_for_step W f ih, items := mono_items_step W f ih,
      tmpl := mono_tmpl_step W f ih, incl := mono_incl_step W f ih, slot := mono_slot_step W f ih }

/-- MORE FUEL NEVER CHANGES AN ANSWER: once the evaluator returns anything but `.fuel`, every larger fuel returns exactly that -/
theorem evalList_fuel_mono (W : World) (f k : Nat) (ctx : Ctx) (st : St) (ns : List Node) (r : R (List Node))
    (h : evalList W f ctx st ns = r) (hne : r ≠ .fuel) : evalList W (f + k) ctx st ns = r := by
  induction k with
  | zero => exact h
  | succ k ih =>
    rcases (monoAt_all W (f + k)).list ctx st ns with hl | hl
    · rw [ih] at hl; exact absurd hl hne
    · rw [← Nat.add_assoc, ← hl, ih]

end Vuego
