import Vuego.Model.Html
namespace Vuego.Html
open Go

theorem run_nil (s : St) : run s [] = (s, []) := rfl

theorem run_cons (s : St) (c : Char) (r : Str) :
    run s (c :: r) = ((run (step s c).1 r).1, (step s c).2 ++ (run (step s c).1 r).2) := by
  simp only [run]

theorem run_append (s : St) (a b : Str) :
    run s (a ++ b) = ((run (run s a).1 b).1, (run s a).2 ++ (run (run s a).1 b).2) := by
  induction a generalizing s with
  | nil => simp [run]
  | cons c r ih =>
    simp only [List.cons_append, run_cons, ih, List.append_assoc]

theorem run_singleton (s : St) (c : Char) : run s [c] = ((step s c).1, (step s c).2) := by
  simp [run_cons, run_nil]

/-! ### characters that need no escaping pass through the data state / the double-quoted value state -/

def special (c : Char) : Bool := c == '&' || c == '<' || c == '>' || c == '"' || c == '\'' || c == '\r'

theorem escChar_of_not_special (c : Char) (h : special c = false) : escChar c = [c] := by
  simp only [special, Bool.or_eq_false_iff, beq_eq_false_iff_ne, ne_eq] at h
  obtain ⟨⟨⟨⟨⟨h1, h2⟩, h3⟩, h4⟩, h5⟩, h6⟩ := h
  simp [escChar, h1, h2, h3, h4, h5, h6]

theorem run_data_escChar (c : Char) : run .data (escChar c) = (.data, [.ch c]) := by
  by_cases h : special c = true
  · simp only [special, Bool.or_eq_true, beq_iff_eq] at h
    rcases h with ((((rfl | rfl) | rfl) | rfl) | rfl) | rfl <;> decide
  · have hs : special c = false := by simpa using h
    rw [escChar_of_not_special c hs, run_singleton]
    simp only [special, Bool.or_eq_false_iff, beq_eq_false_iff_ne, ne_eq] at hs
    simp [step, stepData, hs.1.1.1.1.1, hs.1.1.1.1.2]

theorem run_data_escape (s : Str) : run .data (escape s) = (.data, s.map .ch) := by
  induction s with
  | nil => rfl
  | cons c r ih => simp [escape, run_append, run_data_escChar, ih]

theorem run_valDq_escChar (t : Tag) (an acc : Str) (c : Char) :
    run (.valDq t an acc) (escChar c) = (.valDq t an (acc ++ [c]), []) := by
  by_cases h : special c = true
  · simp only [special, Bool.or_eq_true, beq_iff_eq] at h
    rcases h with ((((rfl | rfl) | rfl) | rfl) | rfl) | rfl <;>
      simp [escChar, run_cons, run_nil, step, isRefPrefix, refTable, hasPrefix, List.lookup]
  · have hs : special c = false := by simpa using h
    rw [escChar_of_not_special c hs, run_singleton]
    simp only [special, Bool.or_eq_false_iff, beq_eq_false_iff_ne, ne_eq] at hs
    simp [step, hs.1.1.1.1.1, hs.1.1.2]

theorem run_valDq_escape (t : Tag) (an acc v : Str) :
    run (.valDq t an acc) (escape v) = (.valDq t an (acc ++ v), []) := by
  induction v generalizing acc with
  | nil => simp [escape, run_nil]
  | cons c r ih => simp [escape, run_append, run_valDq_escChar, ih]

/-! ### names -/

/-- a character that can sit inside a tag or attribute name as the serialiser writes it -/
def nameChar (c : Char) : Bool := !isWs c && c != '/' && c != '>' && c != '=' && lower c == c

/-- well-formed tag name: starts with a letter, consists of name characters -/
def WFTag (n : Str) : Prop := ∃ c r, n = c :: r ∧ isAlpha c = true ∧ lower c = c ∧ ∀ x ∈ r, nameChar x = true

/-- well-formed attribute name: non-empty, name characters only -/
def WFAttrName (n : Str) : Prop := n ≠ [] ∧ ∀ x ∈ n, nameChar x = true

theorem nameChar_props {c : Char} (h : nameChar c = true) :
    isWs c = false ∧ c ≠ '/' ∧ c ≠ '>' ∧ c ≠ '=' ∧ lower c = c := by
  simp only [nameChar, Bool.and_eq_true, Bool.not_eq_eq_eq_not, Bool.not_true, bne_iff_ne, ne_eq, beq_iff_eq] at h
  exact ⟨h.1.1.1.1, h.1.1.1.2, h.1.1.2, h.1.2, h.2⟩

theorem run_tagName_chars (t : Tag) (r : Str) (h : ∀ x ∈ r, nameChar x = true) :
    run (.tagName t) r = (.tagName { t with name := t.name ++ r }, []) := by
  induction r generalizing t with
  | nil => simp [run_nil]
  | cons c r ih =>
    obtain ⟨h1, h2, h3, _, h5⟩ := nameChar_props (h c (by simp))
    rw [run_cons]
    simp only [step, h1, Bool.false_eq_true, ↓reduceIte, beq_iff_eq, h2, h3, h5]
    rw [ih _ (fun x hx => h x (by simp [hx]))]
    simp

theorem run_attrName_chars (t : Tag) (an r : Str) (h : ∀ x ∈ r, nameChar x = true) :
    run (.attrName t an) r = (.attrName t (an ++ r), []) := by
  induction r generalizing an with
  | nil => simp [run_nil]
  | cons c r ih =>
    obtain ⟨h1, h2, h3, h4, h5⟩ := nameChar_props (h c (by simp))
    rw [run_cons]
    simp only [step, h1, Bool.false_eq_true, ↓reduceIte, beq_iff_eq, h2, h3, h4, h5]
    rw [ih _ (fun x hx => h x (by simp [hx]))]
    simp

theorem run_open_tag (n : Str) (h : WFTag n) :
    run .data ('<' :: n) = (.tagName { isEnd := false, name := n, attrs := [] }, []) := by
  obtain ⟨c, r, rfl, ha, hl, hr⟩ := h
  rw [run_cons]
  have s1 : step .data '<' = (.tagOpen, []) := by simp [step, stepData]
  rw [s1]
  simp only [List.nil_append]
  rw [run_cons]
  have hc : c ≠ '/' := by intro h; subst h; simp [isAlpha] at ha
  have s2 : step .tagOpen c = (.tagName { isEnd := false, name := [c], attrs := [] }, []) := by
    simp [step, hc, ha, hl]
  rw [s2, run_tagName_chars _ r hr]
  simp

theorem run_end_tag (n : Str) (h : WFTag n) :
    run .data ('<' :: '/' :: (n ++ ['>'])) = (.data, [.endTag n]) := by
  obtain ⟨c, r, rfl, ha, hl, hr⟩ := h
  have s1 : step .data '<' = (.tagOpen, []) := by simp [step, stepData]
  have s2 : step .tagOpen '/' = (.endTagOpen, []) := by simp [step]
  have s3 : step .endTagOpen c = (.tagName { isEnd := true, name := [c], attrs := [] }, []) := by
    simp [step, ha, hl]
  rw [run_cons, s1, run_cons, s2]
  simp only [List.cons_append, List.nil_append]
  rw [run_cons, s3, run_append, run_tagName_chars _ r hr, run_singleton]
  simp [step, isWs, emitTag]

end Vuego.Html
