/-
String lemmas for the formatter's inline text: `fieldsHtml` and `joinWith " "` are inverse on words, `trimHtml` removes exactly the blank
margin, and `normalizeInlineText` is idempotent.
-/
import Vuego.Lemmas.FmtRaw
namespace Vuego.FmtTree
open Go Vuego

def Word (w : Str) : Prop := w ≠ [] ∧ ∀ c ∈ w, isHtmlSpace c = false

theorem isHtmlSpace_space : isHtmlSpace ' ' = true := by decide

/-! ### fieldsHtml -/

theorem fieldsAux_word (w : Str) (hw : ∀ c ∈ w, isHtmlSpace c = false) : ∀ (rest cur : Str), fieldsHtmlAux (w ++ rest) cur = fieldsHtmlAux rest (w.reverse ++ cur) := by
  induction w with
  | nil => intro rest cur; rfl
  | cons c w ih =>
    intro rest cur
    have hc : isHtmlSpace c = false := hw c (by simp)
    simp only [List.cons_append, fieldsHtmlAux, hc, Bool.false_eq_true, ↓reduceIte]
    rw [ih (fun x hx => hw x (by simp [hx]))]
    simp

theorem fieldsAux_space (rest cur : Str) (h : cur ≠ []) : fieldsHtmlAux (' ' :: rest) cur = cur.reverse :: fieldsHtmlAux rest [] := by
  have hb : (cur == []) = false := by simpa using h
  simp [fieldsHtmlAux, isHtmlSpace_space, hb]

/-- `strings.Fields(strings.Join(words, " ")) = words` -/
theorem fields_join : ∀ (ws : List Str), (∀ w ∈ ws, Word w) → fieldsHtml (joinWith [' '] ws) = ws
  | [], _ => rfl
  | [w], h => by
    have hw := h w (by simp)
    have := fieldsAux_word w hw.2 [] []
    simp only [List.append_nil] at this
    have hb : (w.reverse == []) = false := by simpa using hw.1
    simp [fieldsHtml, joinWith, this, fieldsHtmlAux, hb]
  | w :: v :: r, h => by
    have hw := h w (by simp)
    have ih := fields_join (v :: r) (fun x hx => h x (by simp [hx]))
    unfold fieldsHtml at ih ⊢
    simp only [joinWith, List.append_assoc, List.cons_append, List.nil_append]
    rw [fieldsAux_word w hw.2, List.append_nil, fieldsAux_space _ _ (by simpa using hw.1), ih]
    simp

theorem fieldsAux_words : ∀ (t cur : Str), (∀ c ∈ cur, isHtmlSpace c = false) → ∀ w ∈ fieldsHtmlAux t cur, Word w
  | [], cur, hcur, w, hw => by
    simp only [fieldsHtmlAux] at hw
    split at hw
    · simp at hw
    · rename_i hne
      simp only [List.mem_singleton] at hw
      subst hw
      exact ⟨by simpa using hne, fun c hc => hcur c (by simpa using hc)⟩
  | c :: t, cur, hcur, w, hw => by
    simp only [fieldsHtmlAux] at hw
    split at hw
    · split at hw
      · exact fieldsAux_words t [] (by simp) w hw
      · rename_i hne
        simp only [List.mem_cons] at hw
        rcases hw with rfl | hw
        · exact ⟨by simpa using hne, fun c hc => hcur c (by simpa using hc)⟩
        · exact fieldsAux_words t [] (by simp) w hw
    · rename_i hsp
      exact fieldsAux_words t (c :: cur) (by
        intro x hx
        simp only [List.mem_cons] at hx
        rcases hx with rfl | hx
        · simpa using hsp
        · exact hcur x hx) w hw

theorem fields_words (t : Str) : ∀ w ∈ fieldsHtml t, Word w := fieldsAux_words t [] (by simp)

theorem fieldsAux_ne_nil : ∀ (t cur : Str), (cur ≠ [] ∨ ∃ c ∈ t, isHtmlSpace c = false) → fieldsHtmlAux t cur ≠ []
  | [], cur, h => by
    rcases h with h | ⟨c, hc, _⟩
    · have hb : (cur == []) = false := by simpa using h
      simp [fieldsHtmlAux, hb]
    · simp at hc
  | c :: t, cur, h => by
    simp only [fieldsHtmlAux]
    split
    · rename_i hsp
      split
      · apply fieldsAux_ne_nil t []
        right
        rcases h with h | ⟨x, hx, hxs⟩
        · rename_i hc; exact absurd (by simpa using hc) h
        · simp only [List.mem_cons] at hx
          rcases hx with rfl | hx
          · simp [hsp] at hxs
          · exact ⟨x, hx, hxs⟩
      · simp
    · exact fieldsAux_ne_nil t (c :: cur) (Or.inl (by simp))

/-! ### joined words -/

theorem join_head_last : ∀ (ws : List Str), ws ≠ [] → (∀ w ∈ ws, Word w) →
    (∃ c r, joinWith [' '] ws = c :: r ∧ isHtmlSpace c = false) ∧ (∃ c r, (joinWith [' '] ws).reverse = c :: r ∧ isHtmlSpace c = false)
  | [], h, _ => absurd rfl h
  | [w], _, hw => by
    obtain ⟨hne, hsp⟩ := hw w (by simp)
    simp only [joinWith]
    constructor
    · cases w with
      | nil => exact absurd rfl hne
      | cons c r => exact ⟨c, r, rfl, hsp c (by simp)⟩
    · cases hr : w.reverse with
      | nil => simp at hr; exact absurd hr hne
      | cons c r =>
        have hm : c ∈ w := by
          have : c ∈ w.reverse := by rw [hr]; simp
          simpa using this
        exact ⟨c, r, rfl, hsp c hm⟩
  | w :: v :: r, _, hw => by
    obtain ⟨hne, hsp⟩ := hw w (by simp)
    obtain ⟨_, ⟨c, t, hl, hcl⟩⟩ := join_head_last (v :: r) (by simp) (fun x hx => hw x (by simp [hx]))
    simp only [joinWith]
    constructor
    · cases w with
      | nil => exact absurd rfl hne
      | cons c r' => exact ⟨c, _, rfl, hsp c (by simp)⟩
    · refine ⟨c, t ++ ' ' :: w.reverse, ?_, hcl⟩
      simp only [List.reverse_append, List.append_assoc]
      rw [hl]
      simp

/-! ### trimHtml removes exactly the blank margin -/

theorem dropWhile_all {α : Type} (p : α → Bool) : ∀ (l : List α), (∀ x ∈ l, p x = true) → ∀ r, (l ++ r).dropWhile p = r.dropWhile p
  | [], _, _ => rfl
  | a :: l, h, r => by
    simp only [List.cons_append, List.dropWhile, h a (by simp)]
    exact dropWhile_all p l (fun x hx => h x (by simp [hx])) r

theorem trimSpace_margins (pre J post : Str) (hpre : ∀ x ∈ pre, isHtmlSpace x = true) (hpost : ∀ x ∈ post, isHtmlSpace x = true)
    (hh : ∃ c r, J = c :: r ∧ isHtmlSpace c = false) (hl : ∃ c r, J.reverse = c :: r ∧ isHtmlSpace c = false) :
    trimHtml (pre ++ J ++ post) = J := by
  obtain ⟨c, r, hJ, hc⟩ := hh
  obtain ⟨d, t, hJr, hd⟩ := hl
  unfold trimHtml trimHtmlLeft trimHtmlRight
  rw [List.append_assoc, dropWhile_all isHtmlSpace pre hpre, hJ]
  simp only [List.cons_append, List.dropWhile, hc]
  have : (c :: (r ++ post)).reverse = post.reverse ++ (c :: r).reverse := by simp
  rw [this, dropWhile_all isHtmlSpace post.reverse (fun x hx => hpost x (by simpa using hx)), ← hJ, hJr]
  simp only [List.dropWhile, hd]
  rw [← hJr]; simp

/-! ### normalizeInlineText -/

theorem exists_nonspace_of_trim_ne (s : Str) (h : trimHtml s ≠ []) : ∃ c ∈ trimHtml s, isHtmlSpace c = false := by
  unfold trimHtml trimHtmlRight at *
  cases hr : ((trimHtmlLeft s).reverse.dropWhile isHtmlSpace) with
  | nil => simp [hr] at h
  | cons c r =>
    refine ⟨c, ?_, dropWhile_head_false isHtmlSpace _ c r hr⟩
    simp [hr]

theorem normalize_blank (s : Str) (h : trimHtml s = []) : normalizeInlineText (normalizeInlineText s) = normalizeInlineText s := by
  have hb : (trimHtml s == []) = true := by simpa using h
  unfold normalizeInlineText
  simp only [hb, ↓reduceIte]
  split <;> decide

/-- INLINE TEXT IS STABLE UNDER RE-FORMATTING: normalising the normalised text changes nothing -/
theorem normalizeInlineText_idem (s : Str) : normalizeInlineText (normalizeInlineText s) = normalizeInlineText s := by
  by_cases h : trimHtml s = []
  · exact normalize_blank s h
  · have hb : (trimHtml s == []) = false := by simpa using h
    -- the words of the text, and their joined form
    have hW : ∀ w ∈ fieldsHtml (trimHtml s), Word w := fields_words _
    have hWne : fieldsHtml (trimHtml s) ≠ [] := by
      obtain ⟨c, hc, hcs⟩ := exists_nonspace_of_trim_ne s h
      exact fieldsAux_ne_nil _ [] (Or.inr ⟨c, hc, hcs⟩)
    obtain ⟨hhead, hlast⟩ := join_head_last _ hWne hW
    generalize hJ : joinWith [' '] (fieldsHtml (trimHtml s)) = J at hhead hlast
    -- the shape of the result: optional space, J, optional space
    have shape : ∃ pre post : Str, (pre = [] ∨ pre = [' ']) ∧ (post = [] ∨ post = [' ']) ∧ normalizeInlineText s = pre ++ J ++ post := by
      unfold normalizeInlineText
      simp only [hb, Bool.false_eq_true, ↓reduceIte, hJ]
      by_cases h1 : (s.head?.map isHtmlSpace).getD false = true <;> by_cases h2 : (s.getLast?.map isHtmlSpace).getD false = true
      · exact ⟨[' '], [' '], Or.inr rfl, Or.inr rfl, by simp [h1, h2]⟩
      · exact ⟨[' '], [], Or.inr rfl, Or.inl rfl, by simp [h1, h2]⟩
      · exact ⟨[], [' '], Or.inl rfl, Or.inr rfl, by simp [h1, h2]⟩
      · exact ⟨[], [], Or.inl rfl, Or.inl rfl, by simp [h1, h2]⟩
    obtain ⟨pre, post, hpre, hpost, hN⟩ := shape
    have hpreS : ∀ x ∈ pre, isHtmlSpace x = true := by rcases hpre with rfl | rfl <;> simp [isHtmlSpace_space]
    have hpostS : ∀ x ∈ post, isHtmlSpace x = true := by rcases hpost with rfl | rfl <;> simp [isHtmlSpace_space]
    have htrim : trimHtml (pre ++ J ++ post) = J := trimSpace_margins pre J post hpreS hpostS hhead hlast
    obtain ⟨c, r, hJc, hc⟩ := hhead
    obtain ⟨d, t, hJd, hd⟩ := hlast
    have hJne : J ≠ [] := by rw [hJc]; simp
    have hJb : (J == []) = false := by simpa using hJne
    rw [hN]
    conv => lhs; unfold normalizeInlineText
    simp only [htrim, hJb, Bool.false_eq_true, ↓reduceIte]
    rw [← hJ, fields_join _ hW, hJ]
    -- the boundary flags of pre ++ J ++ post are exactly pre and post
    have hhd : ((pre ++ J ++ post).head?.map isHtmlSpace).getD false = (pre == [' ']) := by
      rcases hpre with rfl | rfl
      · simp [hJc, hc]
      · simp [isHtmlSpace_space]
    have hlt : ((pre ++ J ++ post).getLast?.map isHtmlSpace).getD false = (post == [' ']) := by
      rcases hpost with rfl | rfl
      · have hg : (pre ++ J ++ []).getLast? = some d := by
          have : (pre ++ J ++ []).reverse = d :: (t ++ pre.reverse) := by simp [hJd]
          rw [List.getLast?_eq_head?_reverse, this]; rfl
        rw [hg]
        simp [hd]
      · simp [isHtmlSpace_space]
    rw [hhd, hlt]
    rcases hpre with rfl | rfl <;> rcases hpost with rfl | rfl <;> simp

end Vuego.FmtTree
