import Vuego.Lemmas.RenderTree
namespace Vuego
open Go Html

/-- what a parser's element structure is made of: element starts with their attribute names, element ends -/
inductive SkelItem where
  | «open» (tag : Str) (attrNames : List Str)
  | close (tag : Str)
  | cmt
  deriving Repr, DecidableEq

def skel : List Tok → List SkelItem
  | [] => []
  | .ch _ :: r => skel r
  | .startTag n attrs _ :: r => .open n (attrs.map (·.1)) :: skel r
  | .endTag n :: r => .close n :: skel r
  | .comment :: r => .cmt :: skel r

theorem skel_append (a b : List Tok) : skel (a ++ b) = skel a ++ skel b := by
  induction a with
  | nil => rfl
  | cons t r ih => cases t <;> simp [skel, ih]

theorem skel_chars (s : Str) : skel (s.map .ch) = [] := by
  induction s with
  | nil => rfl
  | cons c r ih => simp [skel, ih]

mutual
/-- the element/attribute-name structure of a DOM, independent of every text and attribute *value* -/
def shapeNode : Node → List SkelItem
  | .elem tag attrs kids => .open tag ((visibleAttrs attrs).map (·.1)) :: (shapeList kids ++ [.close tag])
  | .doctype _ => if Generated.rendersDoctype then [.cmt] else []
  | _ => []
def shapeList : List Node → List SkelItem
  | [] => []
  | n :: r => shapeNode n ++ shapeList r
end

theorem kidShape_none {kids : List Node} (h : kidShape kids = .none) : kids = [] := by
  match kids, h with
  | [], _ => rfl
  | [.text _], h => simp [kidShape] at h
  | [.elem _ _ _], h => simp [kidShape] at h
  | [.comment _], h => simp [kidShape] at h
  | [.doctype _], h => simp [kidShape] at h
  | _ :: _ :: _, h => simp [kidShape] at h

theorem kidShape_oneText {kids : List Node} {d : Str} (h : kidShape kids = .oneText d) : kids = [.text d] := by
  match kids, h with
  | [], h => simp [kidShape] at h
  | [.text d'], h => simp [kidShape] at h; rw [h]
  | [.elem _ _ _], h => simp [kidShape] at h
  | [.comment _], h => simp [kidShape] at h
  | [.doctype _], h => simp [kidShape] at h
  | _ :: _ :: _, h => simp [kidShape] at h

mutual
theorem skel_toksNode (indent : Nat) (n : Node) : skel (toksNode indent n) = shapeNode n :=
  match n with
  | .text d => by
    simp only [toksNode, shapeNode]
    split
    · rfl
    · exact skel_chars _
  | .comment _ => rfl
  | .doctype _ => by
    simp only [toksNode, shapeNode]
    split <;> rfl
  | .elem tag attrs kids => by
    have hl := skel_toksList (indent + 2) kids
    simp only [toksNode, shapeNode]
    cases hks : kidShape kids with
    | none =>
      simp only []
      rw [kidShape_none hks]
      simp [skel_append, skel_chars, skel, shapeList]
    | oneText d =>
      simp only []
      rw [kidShape_oneText hks]
      simp [skel_append, skel_chars, skel, shapeList, shapeNode]
    | many =>
      simp only []
      simp [skel_append, skel_chars, skel, hl]
theorem skel_toksList (indent : Nat) (ns : List Node) : skel (toksList indent ns) = shapeList ns :=
  match ns with
  | [] => rfl
  | n :: r => by
    simp only [toksList, shapeList, skel_append]
    rw [skel_toksNode indent n, skel_toksList indent r]
end

/-! ### the two facts about the regenerated leaf functions -/

theorem firstSome_none {α : Type} (s : Str) (f : Char → Option α) (h : firstSome s f = none) : ∀ c ∈ s, f c = none := by
  induction s with
  | nil => intro c hc; cases hc
  | cons x r ih =>
    simp only [firstSome] at h
    cases hx : f x with
    | some v => simp [hx] at h
    | none =>
      simp only [hx] at h
      intro c hc
      simp only [List.mem_cons] at hc
      rcases hc with rfl | hc
      · exact hx
      · exact ih h c hc

theorem escape_of_no_special (s : Str) (h : ∀ c ∈ s, special c = false) : escape s = s := by
  induction s with
  | nil => rfl
  | cons c r ih =>
    simp only [escape, escChar_of_not_special c (h c (by simp)), ih (fun x hx => h x (by simp [hx]))]
    rfl

end Vuego
