/-
WHAT THE EVALUATOR CAN PUT INTO THE OUTPUT DOM. For every template whose tag and attribute NAMES are what an HTML parser produces (and
that does not use the one exempt sink, `v-html`), for every world of such component files, every context and EVERY DATA, the DOM the
evaluator returns is a well-formed evaluated DOM (`WFEList`, Lemmas/RenderSinks): tag names and attribute names come from the templates,
data only ever reaches text nodes, attribute VALUES and escaped `v-text` content. Together with the serialiser theorem
(`run_renderEList`) this is the end-to-end form of C01: a parser reading the rendered page finds exactly the DOM the evaluator built.
-/
import Vuego.Lemmas.RenderSinks
import Vuego.Model.Eval
set_option maxRecDepth 4000
namespace Vuego
open Go Html

/-! ### names -/

def contentKey (k : Str) : Bool := k == sVHtml || k == sVText

/-- an attribute name that may appear in the output: not one of the two internal content keys, written (after unwrapping a bracketed
    name) as a non-empty run of name characters -/
def NameOK (k : Str) : Prop := contentKey k = false ∧ outKey k ≠ [] ∧ ∀ x ∈ k, nameChar x = true

/-- an attribute name of a TEMPLATE: fine as it is, and fine with its binding prefix (`:`, `v-bind:`) removed -/
def KeyOK (k : Str) : Prop := NameOK k ∧ NameOK (boundNameOf k)

theorem mem_drop {α : Type} {x : α} : ∀ {n : Nat} {l : List α}, x ∈ l.drop n → x ∈ l
  | 0, _, h => by simpa using h
  | _ + 1, [], h => by simp at h
  | n + 1, _ :: r, h => by
    simp only [List.drop_succ_cons] at h
    exact List.mem_cons_of_mem _ (mem_drop h)

theorem mem_dropLast {α : Type} {x : α} : ∀ {l : List α}, x ∈ l.dropLast → x ∈ l
  | [], h => by simp at h
  | [_], h => by simp at h
  | a :: b :: r, h => by
    simp only [List.dropLast_cons₂] at h
    rcases List.mem_cons.mp h with rfl | h
    · exact List.mem_cons_self ..
    · exact List.mem_cons_of_mem _ (mem_dropLast h)

theorem nameOK_wf {k : Str} (h : NameOK k) : WFAttrName (outKey k) := by
  refine ⟨h.2.1, fun x hx => ?_⟩
  unfold outKey at hx
  split at hx
  · exact h.2.2 x (mem_drop (mem_dropLast hx))
  · exact h.2.2 x hx

theorem nameOK_ne_vtext {k : Str} (h : NameOK k) : k ≠ sVText := by
  intro e; subst e
  have := h.1
  simp [contentKey] at this

theorem nameOK_ne_vhtml {k : Str} (h : NameOK k) : k ≠ sVHtml := by
  intro e; subst e
  have := h.1
  simp [contentKey] at this

/-! ### attribute lists of the output -/

/-- every attribute is the escaped v-text content or has a fine name -/
def OutAttrs (a : List Attr) : Prop := ∀ kv ∈ a, (kv.1 = sVText ∧ ∃ x, kv.2 = escape x) ∨ NameOK kv.1

/-- the same for the attributes a directive pass reads: template names, plus content already produced by an earlier pass -/
def InAttrs (a : List Attr) : Prop := ∀ kv ∈ a, (kv.1 = sVText ∧ ∃ x, kv.2 = escape x) ∨ KeyOK kv.1

theorem outAttrs_of_in {a : List Attr} (h : InAttrs a) : OutAttrs a := fun kv hk => (h kv hk).imp id (·.1)

theorem outAttrs_nil : OutAttrs [] := fun _ h => by cases h

theorem outAttrs_append {a b : List Attr} (ha : OutAttrs a) (hb : OutAttrs b) : OutAttrs (a ++ b) := by
  intro kv hk
  rcases List.mem_append.mp hk with h | h
  · exact ha kv h
  · exact hb kv h

theorem outAttrs_single_name {k v : Str} (h : NameOK k) : OutAttrs [(k, v)] := by
  intro kv hk
  simp only [List.mem_singleton] at hk
  subst hk; exact Or.inr h

theorem outAttrs_single_vtext (x : Str) : OutAttrs [(sVText, escape x)] := by
  intro kv hk
  simp only [List.mem_singleton] at hk
  subst hk; exact Or.inl ⟨rfl, x, rfl⟩

theorem outAttrs_filter {a : List Attr} (p : Attr → Bool) (h : OutAttrs a) : OutAttrs (a.filter p) :=
  fun kv hk => h kv (List.mem_filter.mp hk).1

theorem inAttrs_filter {a : List Attr} (p : Attr → Bool) (h : InAttrs a) : InAttrs (a.filter p) :=
  fun kv hk => h kv (List.mem_filter.mp hk).1

theorem outAttrs_setAttr {a : List Attr} {k : Str} (v : Str) (h : OutAttrs a) (hk : NameOK k) : OutAttrs (setAttr a k v) := by
  induction a with
  | nil => exact outAttrs_single_name hk
  | cons e r ih =>
    obtain ⟨k', v'⟩ := e
    simp only [setAttr]
    have hr : OutAttrs r := fun kv hm => h kv (List.mem_cons_of_mem _ hm)
    split
    · intro kv hm
      rcases List.mem_cons.mp hm with rfl | hm
      · exact Or.inr hk
      · exact hr kv hm
    · intro kv hm
      rcases List.mem_cons.mp hm with rfl | hm
      · exact h _ (List.mem_cons_self ..)
      · exact ih hr kv hm

theorem contentAttrs_of_out {a : List Attr} (h : OutAttrs a) :
    (contentAttrs a).1 = [] ∧ (vtextOf a ≠ [] → ∃ x, vtextOf a = escape x) := by
  induction a with
  | nil => exact ⟨rfl, fun hn => absurd rfl hn⟩
  | cons e r ih =>
    obtain ⟨k, v⟩ := e
    have hr : OutAttrs r := fun kv hm => h kv (List.mem_cons_of_mem _ hm)
    have he := h (k, v) (List.mem_cons_self ..)
    simp only [vtextOf, contentAttrs]
    rcases he with ⟨hk, x, hx⟩ | hn
    · have hk : k = sVText := hk
      have hx : v = escape x := hx
      subst hk
      have : (sVText == sVHtml) = false := by decide
      simp only [this, Bool.false_eq_true, ↓reduceIte, beq_self_eq_true]
      exact ⟨trivial, fun _ => ⟨x, hx⟩⟩
    · have h1 : (k == sVHtml) = false := by simpa using nameOK_ne_vhtml hn
      have h2 : (k == sVText) = false := by simpa using nameOK_ne_vtext hn
      simp only [h1, h2, Bool.false_eq_true, ↓reduceIte]
      exact ih hr

theorem vtext_ignored : Generated.shouldIgnoreAttr sVText = true := by decide

theorem visible_of_out {a : List Attr} (h : OutAttrs a) : ∀ kv ∈ visibleAttrs a, WFAttrName kv.1 := by
  induction a with
  | nil => intro kv hk; cases hk
  | cons e r ih =>
    obtain ⟨k, v⟩ := e
    have hr : OutAttrs r := fun kv hm => h kv (List.mem_cons_of_mem _ hm)
    intro kv hk
    simp only [visibleAttrs] at hk
    split at hk
    · exact ih hr kv hk
    · rcases List.mem_cons.mp hk with rfl | hk
      · rcases h (k, v) (List.mem_cons_self ..) with ⟨hkk, _⟩ | hn
        · have hkk : k = sVText := hkk
          subst hkk
          rename_i hni _
          exact absurd vtext_ignored hni
        · exact nameOK_wf hn
      · exact ih hr kv hk


/-! ### the directive passes over one element's attributes -/

theorem foldl_inv {α β : Type} (Inv : β → Prop) (f : β → α → β) (l : List α) (hf : ∀ acc a, a ∈ l → Inv acc → Inv (f acc a)) :
    ∀ init, Inv init → Inv (l.foldl f init) := by
  induction l with
  | nil => intro init h; exact h
  | cons a r ih =>
    intro init h
    simp only [List.foldl_cons]
    exact ih (fun acc x hx => hf acc x (List.mem_cons_of_mem _ hx)) _ (hf init a (List.mem_cons_self ..) h)

theorem getAttr_of_not_hasAttr (a : List Attr) (k : Str) (h : hasAttr a k = false) : getAttr a k = [] := by
  induction a with
  | nil => rfl
  | cons e r ih =>
    obtain ⟨k', v'⟩ := e
    simp only [hasAttr, List.any_cons, Bool.or_eq_false_iff] at h
    have hk : (k == k') = false := by
      have h1 : (k' == k) = false := h.1
      have hne : k' ≠ k := by simpa using h1
      have : k ≠ k' := fun e => hne e.symm
      simpa using this
    simp only [getAttr, List.lookup, hk]
    exact ih h.2

/-- `evalVHtml` / `evalVText` only ever APPEND the content attribute; with escaping the value is `escape x` -/
theorem evalVContent_some (P : Params) (s : Stack) (attrs a' : List Attr) (d ck : Str)
    (h : evalVContent P s attrs d ck true = .ok (some a')) : ∃ x, a' = attrs ++ [(ck, escape x)] := by
  unfold evalVContent at h
  simp only [] at h
  split at h
  · cases h
  · generalize s.resolve P.cfg (getAttr attrs d) = r1 at h
    generalize wrapErr (S "in expression '{{ " ++ getAttr attrs d ++ S " }}': ") (evalPipe P s (parsePipeExpr (getAttr attrs d))) = r2 at h
    cases r1 with
    | ok o =>
      cases o with
      | some v =>
        simp only [↓reduceIte, Res.ok.injEq, Option.some.injEq] at h
        exact ⟨_, h.symm⟩
      | none =>
        by_cases hr : routesToPipe (getAttr attrs d) = true
        · simp only [hr, ↓reduceIte] at h
          cases r2 with
          | ok v =>
            simp only [Res.ok.injEq, Option.some.injEq] at h
            exact ⟨_, h.symm⟩
          | err c m => simp [Res.castErr] at h
          | panic x => simp [Res.castErr] at h
          | hang x => simp [Res.castErr] at h
          | fuel => simp [Res.castErr] at h
        · simp only [hr] at h
          cases h
    | err c m => simp [Res.castErr] at h
    | panic x => simp [Res.castErr] at h
    | hang x => simp [Res.castErr] at h
    | fuel => simp [Res.castErr] at h

theorem evalVContent_none_of_no_attr (P : Params) (s : Stack) (attrs : List Attr) (d ck : Str) (esc : Bool) (h : hasAttr attrs d = false) :
    evalVContent P s attrs d ck esc = .ok none := by
  unfold evalVContent
  simp [getAttr_of_not_hasAttr attrs d h]

theorem boundNameOf_vtext : boundNameOf sVText = sVText := by decide

/-- `evalAttributes`: the output attribute names are the static names and the bound names; the escaped v-text content passes through
    (trimmed, which commutes with escaping) -/
theorem evalAttributes_out (P : Params) (s : Stack) (attrs a' : List Attr) (res : Scope) (hin : InAttrs attrs)
    (h : evalAttributes P s attrs = .ok (a', res)) : OutAttrs a' := by
  unfold evalAttributes at h
  simp only [] at h
  generalize hF : List.foldl _ (Res.ok (([] : List Attr), ([] : List Str), ([] : Scope))) attrs = first at h
  have hfirst : ∀ na ord rs, first = .ok (na, ord, rs) → OutAttrs na ∧ ∀ n ∈ ord, NameOK n := by
    rw [← hF]
    apply foldl_inv (fun (acc : Res (List Attr × List Str × Scope)) => ∀ (na : List Attr) (ord : List Str) (rs : Scope), acc = .ok (na, ord, rs) → OutAttrs na ∧ ∀ n ∈ ord, NameOK n)
    · intro acc a ha hacc na ord rs heq
      cases acc with
      | ok x =>
        obtain ⟨na0, ord0, rs0⟩ := x
        obtain ⟨hna0, hord0⟩ := hacc na0 ord0 rs0 rfl
        simp only [] at heq
        have hka := hin a ha
        generalize wrapErr (S "error evaluating attr " ++ boundNameOf a.1 ++ S ": ") (evalBoundAttribute P s (boundNameOf a.1) (trimSpace a.2)) = r1 at heq
        generalize interpolate P s (trimSpace a.2) = r2 at heq
        by_cases hck : (a.1 == sVHtml || a.1 == sVText) = true
        · -- a content key: kept, its value trimmed
          simp only [hck, ↓reduceIte, Res.ok.injEq, Prod.mk.injEq] at heq
          obtain ⟨rfl, rfl, rfl⟩ := heq
          refine ⟨outAttrs_append hna0 ?_, hord0⟩
          rcases hka with ⟨hk, x, hx⟩ | hk
          · intro kv hm
            simp only [List.mem_singleton] at hm
            subst hm
            obtain ⟨y, hy⟩ := trimSpace_escape x
            exact Or.inl ⟨hk, y, by rw [hx, hy]⟩
          · exfalso
            have := hk.1.1
            simp only [contentKey] at this
            rw [this] at hck
            exact absurd hck (by decide)
        · simp only [hck, Bool.false_eq_true, ↓reduceIte] at heq
          by_cases hbn : (boundNameOf a.1 != a.1) = true
          · -- a bound attribute
            simp only [hbn, ↓reduceIte] at heq
            have hnk : NameOK (boundNameOf a.1) := by
              rcases hka with ⟨hk, _⟩ | hk
              · rw [hk, boundNameOf_vtext] at hbn; simp at hbn
              · exact hk.2
            cases r1 with
            | ok v =>
              simp only [] at heq
              split at heq
              · simp only [Res.ok.injEq, Prod.mk.injEq] at heq
                obtain ⟨rfl, rfl, rfl⟩ := heq
                exact ⟨hna0, hord0⟩
              · simp only [Res.ok.injEq, Prod.mk.injEq] at heq
                obtain ⟨rfl, rfl, rfl⟩ := heq
                refine ⟨hna0, ?_⟩
                split
                · exact hord0
                · intro n hn
                  rcases List.mem_append.mp hn with hn | hn
                  · exact hord0 n hn
                  · simp only [List.mem_singleton] at hn; subst hn; exact hnk
            | err c m => simp [Res.castErr] at heq
            | panic x => simp [Res.castErr] at heq
            | hang x => simp [Res.castErr] at heq
            | fuel => simp [Res.castErr] at heq
          · simp only [hbn, Bool.false_eq_true, ↓reduceIte] at heq
            have hnk : NameOK a.1 := by
              rcases hka with ⟨hk, _⟩ | hk
              · exfalso
                rw [hk] at hck
                exact hck (by decide)
              · exact hk.1
            split at heq
            · cases r2 with
              | ok t =>
                simp only [Res.ok.injEq, Prod.mk.injEq] at heq
                obtain ⟨rfl, rfl, rfl⟩ := heq
                exact ⟨outAttrs_append hna0 (outAttrs_single_name hnk), hord0⟩
              | err c m => cases heq
              | panic x => simp [Res.castErr] at heq
              | hang x => simp [Res.castErr] at heq
              | fuel => simp [Res.castErr] at heq
            · simp only [Res.ok.injEq, Prod.mk.injEq] at heq
              obtain ⟨rfl, rfl, rfl⟩ := heq
              exact ⟨outAttrs_append hna0 (outAttrs_single_name hnk), hord0⟩
      | err c m => cases heq
      | panic x => cases heq
      | hang x => cases heq
      | fuel => cases heq
    · intro na ord rs heq
      simp only [Res.ok.injEq, Prod.mk.injEq] at heq
      obtain ⟨rfl, rfl, rfl⟩ := heq
      exact ⟨outAttrs_nil, fun n hn => by cases hn⟩
  cases first with
  | ok x =>
    obtain ⟨na, ord, rs⟩ := x
    obtain ⟨hna, hord⟩ := hfirst na ord rs rfl
    simp only [Res.ok.injEq, Prod.mk.injEq] at h
    rw [← h.1]
    apply foldl_inv OutAttrs
    · intro acc name hn hacc
      have hnk := hord name hn
      split
      · split
        · exact outAttrs_setAttr _ hacc hnk
        · split
          · exact outAttrs_setAttr _ hacc hnk
          · exact outAttrs_setAttr _ hacc hnk
      · split
        · exact outAttrs_append hacc (outAttrs_single_name hnk)
        · exact hacc
    · exact hna
  | err c m => simp [Res.castErr] at h
  | panic x => simp [Res.castErr] at h
  | hang x => simp [Res.castErr] at h
  | fuel => simp [Res.castErr] at h


/-! ### templates -/

/-- the attributes of a template element: names as above, and the exempt sink `v-html` is not used -/
def TplAttrs (attrs : List Attr) : Prop := hasAttr attrs (S "v-html") = false ∧ ∀ a ∈ attrs, KeyOK a.1

mutual
/-- a template as a parser produces it: tag names are names (no raw-text elements), attribute names are names, no `v-html` -/
def TplNode : Node → Prop
  | .text _ => True
  | .comment _ => True
  | .doctype d => '>' ∉ d
  | .elem tag attrs kids => (tag = sTemplate ∨ (WFTag tag ∧ isRawTextTag tag = false)) ∧ TplAttrs attrs ∧ TplList kids
def TplList : List Node → Prop
  | [] => True
  | n :: r => TplNode n ∧ TplList r
end

theorem inAttrs_of_tpl {a : List Attr} (h : TplAttrs a) : InAttrs a := fun kv hk => Or.inr (h.2 kv hk)

theorem hasAttr_filter_false {a : List Attr} (p : Attr → Bool) (k : Str) (h : hasAttr a k = false) : hasAttr (a.filter p) k = false := by
  induction a with
  | nil => rfl
  | cons e r ih =>
    simp only [hasAttr, List.any_cons, Bool.or_eq_false_iff] at h
    simp only [List.filter_cons]
    split
    · simp only [hasAttr, List.any_cons, Bool.or_eq_false_iff]
      exact ⟨h.1, ih h.2⟩
    · exact ih h.2

theorem tplAttrs_filter {a : List Attr} (p : Attr → Bool) (h : TplAttrs a) : TplAttrs (a.filter p) :=
  ⟨hasAttr_filter_false p _ h.1, fun kv hk => h.2 kv (List.mem_filter.mp hk).1⟩

theorem tplAttrs_loopInstance {a : List Attr} (h : TplAttrs a) : TplAttrs (loopInstanceAttrs a) := by
  unfold loopInstanceAttrs removeAttr
  exact tplAttrs_filter _ (tplAttrs_filter _ (tplAttrs_filter _ h))

theorem wfeList_append : ∀ {a b : List Node}, WFEList a → WFEList b → WFEList (a ++ b)
  | [], _, _, hb => hb
  | _ :: _, _, ha, hb => by
    simp only [List.cons_append, WFEList] at ha ⊢
    exact ⟨ha.1, wfeList_append ha.2 hb⟩

theorem wfeList_nil : WFEList [] := trivial

theorem wfeList_single {n : Node} (h : WFENode n) : WFEList [n] := ⟨h, trivial⟩

/-- an element whose tag comes from a template and whose attributes are output attributes is a well-formed output element -/
theorem wfe_elem_of_out {tag : Str} {a : List Attr} {kids : List Node}
    (ht : tag = sTemplate ∨ (WFTag tag ∧ isRawTextTag tag = false)) (ha : OutAttrs a) (hk : WFEList kids) : WFENode (.elem tag a kids) := by
  simp only [WFENode]
  obtain ⟨h1, h2⟩ := contentAttrs_of_out ha
  refine ⟨h1, h2, ?_, ?_, hk⟩
  · intro hne
    rcases ht with ht | ht
    · exact absurd ht hne
    · exact ⟨ht.1, ht.2, visible_of_out ha⟩
  · intro _ _
    exact visible_of_out (outAttrs_filter _ ha)

mutual
/-- a template node copied to the output as it is (`v-pre`, content a page hands to its layout) is a well-formed output node -/
theorem wfe_of_tplNode : ∀ (n : Node), TplNode n → WFENode n
  | .text _, _ => trivial
  | .comment _, _ => trivial
  | .doctype _, h => h
  | .elem _ _ kids, h => by
    simp only [TplNode] at h
    exact wfe_elem_of_out h.1 (outAttrs_of_in (inAttrs_of_tpl h.2.1)) (wfe_of_tplList kids h.2.2)
theorem wfe_of_tplList : ∀ (ns : List Node), TplList ns → WFEList ns
  | [], _ => trivial
  | n :: r, h => ⟨wfe_of_tplNode n h.1, wfe_of_tplList r h.2⟩
end

theorem tplList_append : ∀ {a b : List Node}, TplList a → TplList b → TplList (a ++ b)
  | [], _, _, hb => hb
  | _ :: _, _, ha, hb => ⟨ha.1, tplList_append ha.2 hb⟩

theorem tplList_drop : ∀ (k : Nat) {ns : List Node}, TplList ns → TplList (ns.drop k)
  | 0, _, h => by simpa using h
  | _ + 1, [], _ => by simp [TplList]
  | k + 1, _ :: r, h => by
    simp only [List.drop_succ_cons]
    exact tplList_drop k h.2

theorem tplNode_getElem : ∀ {ns : List Node} {i : Nat} {n : Node}, TplList ns → ns[i]? = some n → TplNode n
  | [], _, _, _, h => by simp at h
  | x :: _, 0, n, hl, h => by
    simp only [List.getElem?_cons_zero, Option.some.injEq] at h
    subst h; exact hl.1
  | _ :: r, i + 1, n, hl, h => by
    simp only [List.getElem?_cons_succ] at h
    exact tplNode_getElem hl.2 h

theorem evalVShow_out (P : Params) (s : Stack) (a a4 : List Attr) (ha : OutAttrs a) (h : evalVShow P s a = .ok a4) : OutAttrs a4 := by
  unfold evalVShow at h
  simp only [] at h
  split at h
  · simp only [Res.ok.injEq] at h; rw [← h]; exact ha
  · cases hc : evalCondition P s (getAttr a (S "v-show")) with
    | ok b =>
      rw [hc] at h
      cases b with
      | true => simp only [Res.ok.injEq] at h; rw [← h]; exact ha
      | false =>
        simp only [Res.ok.injEq] at h; rw [← h]
        exact outAttrs_setAttr _ ha (by refine ⟨by decide, by decide, by decide⟩)
    | err c m => rw [hc] at h; simp [Res.castErr] at h
    | panic x => rw [hc] at h; simp [Res.castErr] at h
    | hang x => rw [hc] at h; simp [Res.castErr] at h
    | fuel => rw [hc] at h; simp [Res.castErr] at h

/-- the two element-level directive passes produce output attributes -/
theorem prologue_out (P : Params) (s : Stack) (attrs : List Attr) (r : List Attr × Bool × Bool) (ht : TplAttrs attrs)
    (h : elementPrologue P s attrs = .ok r) : OutAttrs r.1 := by
  unfold elementPrologue at h
  simp only [] at h
  rw [evalVContent_none_of_no_attr P s attrs (S "v-html") sVHtml false ht.1] at h
  simp only [Option.getD_none, Option.isSome_none, Bool.false_or] at h
  cases ht1 : evalVContent P s attrs (S "v-text") sVText true with
  | ok t =>
    rw [ht1] at h
    simp only [] at h
    have hin : InAttrs (t.getD attrs) := by
      cases t with
      | none => exact inAttrs_of_tpl ht
      | some a1 =>
        obtain ⟨x, hx⟩ := evalVContent_some P s attrs a1 _ _ ht1
        simp only [Option.getD_some, hx]
        intro kv hk
        rcases List.mem_append.mp hk with hk | hk
        · exact Or.inr (ht.2 kv hk)
        · simp only [List.mem_singleton] at hk; subst hk; exact Or.inl ⟨rfl, x, rfl⟩
    cases ha : evalAttributes P s (t.getD attrs) with
    | ok av =>
      rw [ha] at h
      simp only [] at h
      have hout := evalAttributes_out P s _ av.1 av.2 hin ha
      cases hs : evalVShow P s av.1 with
      | ok a4 =>
        rw [hs] at h
        simp only [Res.ok.injEq] at h
        rw [← h]
        exact evalVShow_out P s av.1 a4 hout hs
      | err c m => rw [hs] at h; simp [Res.castErr] at h
      | panic x => rw [hs] at h; simp [Res.castErr] at h
      | hang x => rw [hs] at h; simp [Res.castErr] at h
      | fuel => rw [hs] at h; simp [Res.castErr] at h
    | err c m => rw [ha] at h; simp [Res.castErr] at h
    | panic x => rw [ha] at h; simp [Res.castErr] at h
    | hang x => rw [ha] at h; simp [Res.castErr] at h
    | fuel => rw [ha] at h; simp [Res.castErr] at h
  | err c m => rw [ht1] at h; simp [Res.castErr] at h
  | panic x => rw [ht1] at h; simp [Res.castErr] at h
  | hang x => rw [ht1] at h; simp [Res.castErr] at h
  | fuel => rw [ht1] at h; simp [Res.castErr] at h


/-! ### slot content, component files, contexts -/

def ContentOK (c : SlotContent) : Prop := TplList c.nodes ∧ ∀ tk, c.tmpl = some tk → TplList tk.2
def ScopeOK (sc : SlotScope) : Prop := ∀ e ∈ sc, ContentOK e.2
structure CtxOK (ctx : Ctx) : Prop where
  slots : ∀ sc ∈ ctx.slots, ScopeOK sc
  inherited : ScopeOK ctx.inherited
/-- every component file is a template in the sense above -/
def WorldOK (W : World) : Prop := ∀ name fm dom, W.files.lookup name = some (fm, dom) → TplList dom

theorem lookup_mem {β : Type} : ∀ {l : List (Str × β)} {k : Str} {v : β}, l.lookup k = some v → ∃ k', (k', v) ∈ l
  | [], _, _, h => by simp at h
  | (k0, v0) :: r, k, v, h => by
    simp only [List.lookup] at h
    split at h
    · simp only [Option.some.injEq] at h; subst h; exact ⟨k0, List.mem_cons_self ..⟩
    · obtain ⟨k', hk'⟩ := lookup_mem h
      exact ⟨k', List.mem_cons_of_mem _ hk'⟩

theorem scopeOK_lookup {sc : SlotScope} {name : Str} {c : SlotContent} (h : ScopeOK sc) (hl : sc.lookup name = some c) : ContentOK c := by
  obtain ⟨k', hk'⟩ := lookup_mem hl
  exact h (k', c) hk'

theorem scopeOK_setSlot {sc : SlotScope} (n : Str) {c : SlotContent} (h : ScopeOK sc) (hc : ContentOK c) : ScopeOK (setSlot sc n c) := by
  induction sc with
  | nil => intro e he; simp only [setSlot, List.mem_singleton] at he; subst he; exact hc
  | cons e r ih =>
    obtain ⟨n', c'⟩ := e
    have hr : ScopeOK r := fun x hx => h x (List.mem_cons_of_mem _ hx)
    simp only [setSlot]
    split
    · intro x hx
      rcases List.mem_cons.mp hx with rfl | hx
      · exact hc
      · exact hr x hx
    · intro x hx
      rcases List.mem_cons.mp hx with rfl | hx
      · exact h _ (List.mem_cons_self ..)
      · exact ih hr x hx

theorem scopeOK_extract {kids : List Node} (h : TplList kids) : ScopeOK (extractSlotContent kids) := by
  unfold extractSlotContent
  have key : ∀ (ks : List Node) (acc : SlotScope × List Node), TplList ks → ScopeOK acc.1 → TplList acc.2 →
      ScopeOK (ks.foldl slotStep acc).1 ∧ TplList (ks.foldl slotStep acc).2 := by
    intro ks
    induction ks with
    | nil => intro acc _ h1 h2; exact ⟨h1, h2⟩
    | cons k r ih =>
      intro acc hk h1 h2
      simp only [List.foldl_cons]
      apply ih _ hk.2
      · cases k with
        | text d => simp only [slotStep]; split <;> exact h1
        | comment d => exact h1
        | doctype d => exact h1
        | elem tag attrs ks =>
          simp only [slotStep]
          split
          · have hks : TplList ks := by have := hk.1; simp only [TplNode] at this; exact this.2.2
            exact scopeOK_setSlot _ h1 ⟨hks, fun tk htk => by simp only [Option.some.injEq] at htk; subst htk; exact hks⟩
          · exact h1
      · cases k with
        | text d =>
          simp only [slotStep]
          split
          · exact tplList_append h2 ⟨trivial, trivial⟩
          · exact h2
        | comment d => exact h2
        | doctype d => exact h2
        | elem tag attrs ks =>
          simp only [slotStep]
          split
          · exact h2
          · exact tplList_append h2 ⟨hk.1, trivial⟩
  obtain ⟨h1, h2⟩ := key kids ([], []) h (fun e he => by cases he) trivial
  simp only []
  split
  · exact scopeOK_setSlot _ h1 ⟨h2, fun tk htk => by cases htk⟩
  · exact h1

theorem scopeOK_merge {own inh : SlotScope} (h1 : ScopeOK own) (h2 : ScopeOK inh) : ScopeOK (mergeInherited own inh) := by
  unfold mergeInherited
  induction inh generalizing own with
  | nil => exact h1
  | cons e r ih =>
    simp only [List.foldl_cons]
    apply ih _ (fun x hx => h2 x (List.mem_cons_of_mem _ hx))
    split
    · exact h1
    · intro x hx
      rcases List.mem_append.mp hx with hx | hx
      · exact h1 x hx
      · simp only [List.mem_singleton] at hx; subst hx; exact h2 _ (List.mem_cons_self ..)

/-! ### what is done to a component file before it is evaluated -/

theorem hasAttr_setAttr_other {a : List Attr} {k k' : Str} (v : Str) (hne : (k == k') = false) : hasAttr (setAttr a k v) k' = hasAttr a k' := by
  induction a with
  | nil => simp [setAttr, hasAttr, hne]
  | cons e r ih =>
    obtain ⟨k0, v0⟩ := e
    simp only [setAttr]
    split
    · rename_i h0
      have : k0 = k := by simpa using h0
      subst this
      simp [hasAttr]
    · simp only [hasAttr, List.any_cons] at ih ⊢
      rw [ih]

theorem tplAttrs_setAttr {a : List Attr} {k : Str} (v : Str) (h : TplAttrs a) (hk : KeyOK k) (hne : (k == S "v-html") = false) : TplAttrs (setAttr a k v) := by
  refine ⟨by rw [hasAttr_setAttr_other v hne]; exact h.1, ?_⟩
  induction a with
  | nil => intro x hx; simp only [setAttr, List.mem_singleton] at hx; subst hx; exact hk
  | cons e r ih =>
    obtain ⟨k0, v0⟩ := e
    have hr : TplAttrs r := by
      refine ⟨?_, fun x hx => h.2 x (List.mem_cons_of_mem _ hx)⟩
      have := h.1
      simp only [hasAttr, List.any_cons, Bool.or_eq_false_iff] at this
      exact this.2
    simp only [setAttr]
    split
    · intro x hx
      rcases List.mem_cons.mp hx with rfl | hx
      · exact hk
      · exact hr.2 x hx
    · intro x hx
      rcases List.mem_cons.mp hx with rfl | hx
      · exact h.2 _ (List.mem_cons_self ..)
      · exact ih hr x hx

theorem keyOK_onceId : KeyOK (S "v-once-id") := by
  refine ⟨⟨by decide, by decide, by decide⟩, ⟨by decide, by decide, by decide⟩⟩

theorem keyOK_include : KeyOK (S "include") := by
  refine ⟨⟨by decide, by decide, by decide⟩, ⟨by decide, by decide, by decide⟩⟩

mutual
theorem tpl_assignIdsNode (file : Str) : ∀ (n : Nat) (x : Node), TplNode x → TplNode (assignIdsNode file n x).1
  | n, .elem tag attrs kids, h => by
    simp only [TplNode] at h
    simp only [assignIdsNode]
    split
    · simp only [TplNode]
      exact ⟨h.1, tplAttrs_setAttr _ h.2.1 keyOK_onceId (by decide), tpl_assignIdsList file _ kids h.2.2⟩
    · simp only [TplNode]
      exact ⟨h.1, h.2.1, tpl_assignIdsList file _ kids h.2.2⟩
  | _, .text _, h => h
  | _, .comment _, h => h
  | _, .doctype _, h => h
theorem tpl_assignIdsList (file : Str) : ∀ (n : Nat) (xs : List Node), TplList xs → TplList (assignIdsList file n xs).1
  | _, [], _ => trivial
  | n, x :: r, h => by
    simp only [assignIdsList]
    exact ⟨tpl_assignIdsNode file n x h.1, tpl_assignIdsList file _ r h.2⟩
end

theorem hasAttr_append {a b : List Attr} {k : Str} : hasAttr (a ++ b) k = (hasAttr a k || hasAttr b k) := by
  simp [hasAttr, List.any_append]

mutual
theorem tpl_resolveTagsNode (comps : List (Str × Str)) : ∀ (x : Node), TplNode x → TplNode (resolveTagsNode comps x)
  | .elem tag attrs kids, h => by
    simp only [TplNode] at h
    simp only [resolveTagsNode]
    split
    · simp only [TplNode]
      refine ⟨Or.inl rfl, ⟨?_, ?_⟩, h.2.2⟩
      · rw [hasAttr_append, h.2.1.1]; simp [hasAttr]; decide
      · intro x hx
        rcases List.mem_append.mp hx with hx | hx
        · exact h.2.1.2 x hx
        · simp only [List.mem_singleton] at hx; subst hx; exact keyOK_include
    · simp only [TplNode]
      exact ⟨h.1, h.2.1, tpl_resolveTagsList comps kids h.2.2⟩
  | .text _, h => h
  | .comment _, h => h
  | .doctype _, h => h
theorem tpl_resolveTagsList (comps : List (Str × Str)) : ∀ (xs : List Node), TplList xs → TplList (resolveTagsList comps xs)
  | [], _ => trivial
  | x :: r, h => ⟨tpl_resolveTagsNode comps x h.1, tpl_resolveTagsList comps r h.2⟩
end


/-! ### the evaluator -/

/-- an evaluation's output, when there is one, is a well-formed evaluated DOM -/
def OutOK (r : R (List Node)) : Prop := ∀ out st', r = .ok (out, st') → WFEList out
def OutOK1 (r : R (List Node × Nat)) : Prop := ∀ out st', r = .ok (out, st') → WFEList out.1

theorem outOK_ok {out : List Node} {st : St} (h : WFEList out) : OutOK (.ok (out, st)) := by
  intro o s' he
  simp only [Res.ok.injEq, Prod.mk.injEq] at he
  rw [← he.1]; exact h

theorem outOK_err {c : String} {m : Str} : OutOK (.err c m) := by intro _ _ h; cases h

theorem outOK_bindR {α : Type} {r : R α} {k : α → St → R (List Node)} (hk : ∀ a st, r = .ok (a, st) → OutOK (k a st)) : OutOK (bindR r k) := by
  cases r with
  | ok p => exact hk p.1 p.2 rfl
  | err c m => intro _ _ h; cases h
  | panic x => intro _ _ h; cases h
  | hang x => intro _ _ h; cases h
  | fuel => intro _ _ h; cases h

theorem outOK_bindE {α : Type} {r : Res α} {k : α → R (List Node)} (hk : ∀ a, r = .ok a → OutOK (k a)) : OutOK (bindE r k) := by
  cases r with
  | ok a => exact hk a rfl
  | err c m => intro _ _ h; cases h
  | panic x => intro _ _ h; cases h
  | hang x => intro _ _ h; cases h
  | fuel => intro _ _ h; cases h

theorem outOK_prepend {res : List Node} {r : R (List Node)} (hres : WFEList res) (hr : OutOK r) : OutOK (prepend res r) := by
  unfold prepend
  apply outOK_bindR
  intro a st he
  exact outOK_ok (wfeList_append hres (hr a st he))

theorem keptAttrs_out (P : Params) (s : Stack) (attrs : List Attr) (h : TplAttrs attrs) : OutAttrs (keptAttrs P s attrs) := by
  unfold keptAttrs
  split
  · cases ha : evalAttributes P s attrs with
    | ok av => exact evalAttributes_out P s attrs av.1 av.2 (inAttrs_of_tpl h) ha
    | err c m => exact outAttrs_of_in (inAttrs_of_tpl h)
    | panic x => exact outAttrs_of_in (inAttrs_of_tpl h)
    | hang x => exact outAttrs_of_in (inAttrs_of_tpl h)
    | fuel => exact outAttrs_of_in (inAttrs_of_tpl h)
  · exact outAttrs_of_in (inAttrs_of_tpl h)

theorem any_content_false {attrs : List Attr} (h : TplAttrs attrs) : (attrs.any (fun a => a.1 == sVHtml)) = false := by
  rw [List.any_eq_false]
  intro a ha
  have := (h.2 a ha).1.1
  simp only [contentKey, Bool.or_eq_false_iff] at this
  simpa using this.1

structure WfAt (W : World) (f : Nat) : Prop where
  list : ∀ ctx st ns, CtxOK ctx → TplList ns → OutOK (evalList W f ctx st ns)
  plain : ∀ ctx st tag attrs kids, CtxOK ctx → TplNode (.elem tag attrs kids) → OutOK (evalPlain W f ctx st tag attrs kids)
  asElem : ∀ ctx st tag attrs kids, CtxOK ctx → TplNode (.elem tag attrs kids) → OutOK (evalAsElement W f ctx st tag attrs kids)
  vfor : ∀ ctx st tag attrs kids rest, CtxOK ctx → TplNode (.elem tag attrs kids) → TplList rest → OutOK1 (evalVFor W f ctx st tag attrs kids rest)
  for_ : ∀ ctx st tag attrs kids e, CtxOK ctx → TplNode (.elem tag attrs kids) → OutOK (evalFor W f ctx st tag attrs kids e)
  items : ∀ ctx st tag attrs kids vars xs i, CtxOK ctx → TplNode (.elem tag attrs kids) → OutOK (evalForItems W f ctx st tag attrs kids vars xs i)
  tmpl : ∀ ctx st attrs kids, CtxOK ctx → TplAttrs attrs → TplList kids → OutOK (evalTemplate W f ctx st attrs kids)
  incl : ∀ ctx st attrs kids vars, CtxOK ctx → TplList kids → OutOK (evalInclude W f ctx st attrs kids vars)
  slot : ∀ ctx st attrs kids, CtxOK ctx → TplList kids → OutOK (evalSlot W f ctx st attrs kids)

theorem wfAt_zero (W : World) : WfAt W 0 where
  list := by intros; simp only [evalList]; intro _ _ h; cases h
  plain := by intros; simp only [evalPlain]; intro _ _ h; cases h
  asElem := by intros; simp only [evalAsElement]; intro _ _ h; cases h
  vfor := by intros; simp only [evalVFor]; intro _ _ h; cases h
  for_ := by intros; simp only [evalFor]; intro _ _ h; cases h
  items := by intros; simp only [evalForItems]; intro _ _ h; cases h
  tmpl := by intros; simp only [evalTemplate]; intro _ _ h; cases h
  incl := by intros; simp only [evalInclude]; intro _ _ h; cases h
  slot := by intros; simp only [evalSlot]; intro _ _ h; cases h

theorem wf_plain_step (W : World) (f : Nat) (ih : WfAt W f) :
    ∀ ctx st tag attrs kids, CtxOK ctx → TplNode (.elem tag attrs kids) → OutOK (evalPlain W (f + 1) ctx st tag attrs kids) := by
  intro ctx st tag attrs kids hctx ht
  simp only [TplNode] at ht
  simp only [evalPlain]
  apply outOK_bindE
  intro pr hpr
  have hout := prologue_out W.P st.stack attrs pr ht.2.1 hpr
  split
  · apply outOK_ok
    apply wfeList_single
    apply wfe_elem_of_out ht.1 hout
    split
    · exact wfeList_nil
    · exact wfe_of_tplList kids ht.2.2
  · apply outOK_bindR
    intro ks st' hks
    apply outOK_ok
    exact wfeList_single (wfe_elem_of_out ht.1 hout (ih.list _ _ _ hctx ht.2.2 ks st' hks))

theorem wf_asElem_step (W : World) (f : Nat) (ih : WfAt W f) :
    ∀ ctx st tag attrs kids, CtxOK ctx → TplNode (.elem tag attrs kids) → OutOK (evalAsElement W (f + 1) ctx st tag attrs kids) := by
  intro ctx st tag attrs kids hctx ht
  simp only [evalAsElement]
  split
  · exact ih.for_ _ _ _ _ _ _ hctx ht
  · split
    · simp only [TplNode] at ht
      exact ih.slot _ _ _ _ hctx ht.2.2
    · split
      · simp only [TplNode] at ht
        split
        · exact ih.tmpl _ _ _ _ hctx ht.2.1 ht.2.2
        · exact ih.list _ _ _ hctx ht.2.2
      · exact ih.plain _ _ _ _ _ hctx ht


theorem tplNode_loopInstance {tag : Str} {attrs : List Attr} {kids : List Node} (h : TplNode (.elem tag attrs kids)) :
    TplNode (.elem tag (loopInstanceAttrs attrs) kids) := by
  simp only [TplNode] at h ⊢
  exact ⟨h.1, tplAttrs_loopInstance h.2.1, h.2.2⟩

theorem outOK1_ok {out : List Node × Nat} {st : St} (h : WFEList out.1) : OutOK1 (.ok (out, st)) := by
  intro o s' he
  simp only [Res.ok.injEq, Prod.mk.injEq] at he
  rw [← he.1]; exact h

theorem outOK1_bindR {α : Type} {r : R α} {k : α → St → R (List Node × Nat)} (hk : ∀ a st, r = .ok (a, st) → OutOK1 (k a st)) : OutOK1 (bindR r k) := by
  cases r with
  | ok p => exact hk p.1 p.2 rfl
  | err c m => intro _ _ h; cases h
  | panic x => intro _ _ h; cases h
  | hang x => intro _ _ h; cases h
  | fuel => intro _ _ h; cases h

theorem wf_vfor_step (W : World) (f : Nat) (ih : WfAt W f) :
    ∀ ctx st tag attrs kids rest, CtxOK ctx → TplNode (.elem tag attrs kids) → TplList rest → OutOK1 (evalVFor W (f + 1) ctx st tag attrs kids rest) := by
  intro ctx st tag attrs kids rest hctx ht hrest
  simp only [evalVFor]
  split
  · exact outOK1_ok wfeList_nil
  · apply outOK1_bindR
    intro loopNodes st1 hl
    have hln := ih.for_ _ _ _ _ _ _ hctx ht loopNodes st1 hl
    split
    · exact outOK1_ok hln
    · split
      · rename_i t a k hget
        split
        · split
          · exact outOK1_ok wfeList_nil
          · apply outOK1_bindR
            intro res st2 hres
            exact outOK1_ok (ih.asElem _ _ _ _ _ hctx (tplNode_getElem hrest hget) res st2 hres)
        · exact outOK1_ok wfeList_nil
      · exact outOK1_ok wfeList_nil

theorem wf_for_step (W : World) (f : Nat) (ih : WfAt W f) :
    ∀ ctx st tag attrs kids e, CtxOK ctx → TplNode (.elem tag attrs kids) → OutOK (evalFor W (f + 1) ctx st tag attrs kids e) := by
  intro ctx st tag attrs kids e hctx ht
  simp only [evalFor]
  apply outOK_bindE
  intro vc _
  apply outOK_bindE
  intro coll _
  split
  · exact ih.items _ _ _ _ _ _ _ _ hctx (tplNode_loopInstance ht)
  · exact ih.items _ _ _ _ _ _ _ _ hctx (tplNode_loopInstance ht)
  · exact outOK_ok wfeList_nil

theorem wf_items_step (W : World) (f : Nat) (ih : WfAt W f) :
    ∀ ctx st tag attrs kids vars xs i, CtxOK ctx → TplNode (.elem tag attrs kids) → OutOK (evalForItems W (f + 1) ctx st tag attrs kids vars xs i) := by
  intro ctx st tag attrs kids vars xs i hctx ht
  cases xs with
  | nil => simp only [evalForItems]; exact outOK_ok wfeList_nil
  | cons x xs =>
    simp only [evalForItems]
    split
    · exact outOK_err
    · apply outOK_bindR
      intro res st1 hres
      exact outOK_prepend (ih.list _ _ _ hctx (show TplList [.elem tag attrs kids] from ⟨ht, trivial⟩) res st1 hres) (ih.items _ _ _ _ _ _ _ _ hctx ht)

theorem wf_tmpl_step (W : World) (f : Nat) (ih : WfAt W f) :
    ∀ ctx st attrs kids, CtxOK ctx → TplAttrs attrs → TplList kids → OutOK (evalTemplate W (f + 1) ctx st attrs kids) := by
  intro ctx st attrs kids hctx ha hk
  simp only [evalTemplate]
  split
  · apply outOK_bindE
    intro av _
    exact ih.incl _ _ _ _ _ hctx hk
  · split
    · exact outOK_err
    · rw [evalVContent_none_of_no_attr W.P st.stack attrs (S "v-html") sVHtml false ha.1]
      simp only [bindE, any_content_false ha, Bool.false_eq_true, ↓reduceIte]
      cases setTemplateAttrs W.P W.jsonDecode attrs st.stack with
      | ok sk => exact ih.list _ _ _ hctx hk
      | err c m => exact outOK_err
      | panic x => intro _ _ h; cases h
      | hang x => intro _ _ h; cases h
      | fuel => intro _ _ h; cases h

theorem wf_incl_step (W : World) (hW : WorldOK W) (f : Nat) (ih : WfAt W f) :
    ∀ ctx st attrs kids vars, CtxOK ctx → TplList kids → OutOK (evalInclude W (f + 1) ctx st attrs kids vars) := by
  intro ctx st attrs kids vars hctx hk
  simp only [evalInclude]
  split
  · exact outOK_err
  · split
    · exact outOK_err
    · rename_i fm dom hfile
      split
      · exact outOK_err
      · apply outOK_bindR
        intro res st1 hres
        apply outOK_ok
        have hdom : TplList (resolveTagsList W.comps (assignSeenAttrs (getAttr attrs (S "include")) dom)) :=
          tpl_resolveTagsList _ _ (tpl_assignIdsList _ 0 dom (hW _ fm dom hfile))
        have hctx' : CtxOK { ctx with slots := mergeInherited (extractSlotContent kids) ctx.inherited :: ctx.slots, chain := ctx.chain ++ [getAttr attrs (S "include")] } := by
          constructor
          · intro sc hsc
            rcases List.mem_cons.mp hsc with rfl | hsc
            · exact scopeOK_merge (scopeOK_extract hk) hctx.inherited
            · exact hctx.slots sc hsc
          · exact hctx.inherited
        exact ih.list _ _ _ hctx' hdom res st1 hres

theorem wf_slot_step (W : World) (f : Nat) (ih : WfAt W f) :
    ∀ ctx st attrs kids, CtxOK ctx → TplList kids → OutOK (evalSlot W (f + 1) ctx st attrs kids) := by
  intro ctx st attrs kids hctx hk
  simp only [evalSlot]
  have hctx0 : CtxOK { ctx with slots := [], inherited := [] } :=
    { slots := fun s hs => absurd hs (List.not_mem_nil), inherited := fun e he => absurd he (List.not_mem_nil) }
  split
  · rename_i sc outer hsl
    have hsc : ScopeOK sc := hctx.slots sc (by rw [hsl]; exact List.mem_cons_self ..)
    have hctx' : CtxOK { ctx with slots := outer } := ⟨fun s hs => hctx.slots s (by rw [hsl]; exact List.mem_cons_of_mem _ hs), hctx.inherited⟩
    split
    · rename_i content hl
      have hc := scopeOK_lookup hsc hl
      split
      · rename_i tk htk
        apply outOK_bindR
        intro res st1 hres
        exact outOK_ok (ih.list _ _ _ hctx' (hc.2 tk htk) res st1 hres)
      · exact ih.list _ _ _ hctx' hc.1
    · split
      · rename_i content hl
        have hc := scopeOK_lookup hctx.inherited hl
        split
        · rename_i tk htk
          apply outOK_bindR
          intro res st1 hres
          exact outOK_ok (ih.list _ _ _ hctx0 (hc.2 tk htk) res st1 hres)
        · exact ih.list _ _ _ hctx0 hc.1
      · split
        · exact ih.list _ _ _ hctx hk
        · exact outOK_ok wfeList_nil
  · split
    · rename_i content hl
      have hc := scopeOK_lookup hctx.inherited hl
      split
      · rename_i tk htk
        apply outOK_bindR
        intro res st1 hres
        exact outOK_ok (ih.list _ _ _ hctx0 (hc.2 tk htk) res st1 hres)
      · exact ih.list _ _ _ hctx0 hc.1
    · split
      · exact ih.list _ _ _ hctx hk
      · exact outOK_ok wfeList_nil


theorem S_template : S "template" = sTemplate := rfl

theorem wf_list_step (W : World) (f : Nat) (ih : WfAt W f) :
    ∀ ctx st ns, CtxOK ctx → TplList ns → OutOK (evalList W (f + 1) ctx st ns) := by
  intro ctx st ns hctx hns
  cases ns with
  | nil => simp only [evalList]; exact outOK_ok wfeList_nil
  | cons n rest =>
    have hrest : ∀ k st', OutOK (evalList W f ctx st' (rest.drop k)) := fun k st' => ih.list _ _ _ hctx (tplList_drop k hns.2)
    have hrest0 : ∀ st', OutOK (evalList W f ctx st' rest) := fun st' => ih.list _ _ _ hctx hns.2
    cases n with
    | text d =>
      simp only [evalList]
      cases interpolate W.P st.stack d with
      | ok t => exact outOK_prepend (wfeList_single trivial) (hrest0 _)
      | err c m => exact outOK_err
      | panic x => intro _ _ h; cases h
      | hang x => intro _ _ h; cases h
      | fuel => intro _ _ h; cases h
    | comment d => simp only [evalList]; exact outOK_prepend (wfeList_single trivial) (hrest0 _)
    | doctype d =>
      simp only [evalList]
      exact outOK_prepend (wfeList_single (show WFENode (.doctype d) from hns.1)) (hrest0 _)
    | elem tag attrs kids =>
      have ht : TplNode (.elem tag attrs kids) := hns.1
      have ht' := ht
      simp only [TplNode] at ht'
      simp only [evalList]
      split
      · exact hrest0 _
      · split
        · exact outOK_prepend (wfeList_single (wfe_of_tplNode _ ht)) (hrest0 _)
        · split
          · exact hrest0 _
          · split
            · apply outOK_bindR
              intro rs st1 hrs
              exact outOK_prepend (ih.vfor _ _ _ _ _ _ hctx ht hns.2 rs st1 hrs) (hrest _ _)
            · split
              · apply outOK_bindE
                intro ps _
                split
                · exact hrest _ _
                · split
                  · exact hrest _ _
                  · apply outOK_bindR
                    intro res st1 hres
                    exact outOK_prepend (ih.asElem _ _ _ _ _ hctx ht res st1 hres) (hrest _ _)
                · split
                  · rename_i t a k hget
                    split
                    · exact hrest _ _
                    · apply outOK_bindR
                      intro res st1 hres
                      exact outOK_prepend (ih.asElem _ _ _ _ _ hctx (tplNode_getElem hns.2 hget) res st1 hres) (hrest _ _)
                  · exact hrest _ _
              · split
                · apply outOK_bindR
                  intro res st1 hres
                  exact outOK_prepend (ih.slot _ _ _ _ hctx ht'.2.2 res st1 hres) (hrest0 _)
                · split
                  · rename_i htag
                    have htag' : tag = sTemplate := by
                      have h0 : tag = S "template" := by simpa using htag
                      rw [h0, S_template]
                    apply outOK_bindR
                    intro res st1 hres
                    have hr := ih.tmpl _ _ _ _ hctx ht'.2.1 ht'.2.2 res st1 hres
                    refine outOK_prepend ?_ (hrest0 _)
                    split
                    · exact wfeList_single (wfe_elem_of_out (Or.inl htag') (keptAttrs_out W.P _ attrs ht'.2.1) hr)
                    · exact hr
                  · apply outOK_bindR
                    intro res st1 hres
                    exact outOK_prepend (ih.plain _ _ _ _ _ hctx ht res st1 hres) (hrest0 _)

/-- THE EVALUATOR'S OUTPUT IS A WELL-FORMED EVALUATED DOM, at every fuel, for all nine functions -/
theorem wfAt_all (W : World) (hW : WorldOK W) : ∀ f, WfAt W f
  | 0 => wfAt_zero W
  | f + 1 =>
    have ih := wfAt_all W hW f
    { list := wf_list_step W f ih, plain := wf_plain_step W f ih, asElem := wf_asElem_step W f ih, vfor := wf_vfor_step W f ih,
      for_ := wf_for_step W f ih, items := wf_items_step W f ih, tmpl := wf_tmpl_step W f ih, incl := wf_incl_step W hW f ih,
      slot := wf_slot_step W f ih }


/-! ### the slots a page hands to its layouts -/

mutual
theorem scopeOK_pageSlotsNode : ∀ (n : Node) (acc : SlotScope), TplNode n → ScopeOK acc → ScopeOK (pageSlotsNode acc n)
  | .elem tag attrs kids, acc, h, hacc => by
    simp only [TplNode] at h
    simp only [pageSlotsNode]
    apply scopeOK_pageSlotsList kids _ h.2.2
    split
    · exact scopeOK_setSlot _ hacc ⟨h.2.2, fun tk htk => by simp only [Option.some.injEq] at htk; subst htk; exact h.2.2⟩
    · exact hacc
  | .text _, _, _, hacc => hacc
  | .comment _, _, _, hacc => hacc
  | .doctype _, _, _, hacc => hacc
theorem scopeOK_pageSlotsList : ∀ (ns : List Node) (acc : SlotScope), TplList ns → ScopeOK acc → ScopeOK (pageSlotsList acc ns)
  | [], _, _, hacc => hacc
  | n :: r, acc, h, hacc => by
    simp only [pageSlotsList]
    exact scopeOK_pageSlotsList r _ h.2 (scopeOK_pageSlotsNode n acc h.1 hacc)
end

theorem scopeOK_extractPageSlots {dom : List Node} (h : TplList dom) : ScopeOK (extractPageSlots dom) :=
  scopeOK_pageSlotsList dom [] h (fun e he => by cases he)

end Vuego
