/-
No crash outcome: with the reflect guards in place (the configuration read from the source) and an expression evaluator that
does not crash, no function of the path resolver, the pipe interpreter, the attribute/condition evaluators or the template evaluator
returns `.panic` or `.hang` — for every template, stack and fuel. (`.fuel` is the model's own bound, `.err` an ordinary error.)
-/
import Vuego.Model.Eval
set_option maxRecDepth 2000
namespace Vuego
open Go

def Res.crash {α : Type} : Res α → Bool
  | .panic _ => true
  | .hang _ => true
  | _ => false

abbrev Safe {α : Type} (r : Res α) : Prop := r.crash = false

@[simp] theorem crash_ok {α : Type} (a : α) : (Res.ok a).crash = false := rfl
@[simp] theorem crash_err {α : Type} (c : String) (m : Str) : (Res.err c m : Res α).crash = false := rfl
@[simp] theorem crash_fuel {α : Type} : (Res.fuel : Res α).crash = false := rfl
@[simp] theorem crash_panic {α : Type} (s : String) : (Res.panic s : Res α).crash = true := rfl
@[simp] theorem crash_hang {α : Type} (s : String) : (Res.hang s : Res α).crash = true := rfl

theorem crash_castErr {α β : Type} (r : Res α) (h : ∀ a, r ≠ .ok a) : (r.castErr : Res β).crash = r.crash := by
  cases r <;> simp_all [Res.castErr, Res.crash]

structure GoodCfg (cfg : ReflectCfg) : Prop where
  exported : cfg.checksExported = true
  keyKind : cfg.checksKeyKind = true

theorem safe_resolveStruct (cfg : ReflectCfg) (g : GoodCfg cfg) (fs : List (Str × Str × Bool × Val)) (k : Str) : Safe (resolveStruct cfg fs k) := by
  unfold resolveStruct
  simp only [g.exported, ↓reduceIte]
  split <;> rfl

theorem safe_resolveValue (cfg : ReflectCfg) (g : GoodCfg cfg) (v : Val) (k : Str) : Safe (resolveValue cfg v k) := by
  unfold resolveValue
  split
  · rfl
  · split
    · rfl
    · split
      · rfl
      · exact safe_resolveStruct cfg g _ _
      · simp only [g.keyKind, ↓reduceIte]; rfl
      · rfl
      · rfl
      · rfl

theorem safe_lookup (cfg : ReflectCfg) (g : GoodCfg cfg) (s : Stack) (k : Str) : Safe (s.lookup cfg k) := by
  unfold Stack.lookup
  split
  · rfl
  · split
    · rfl
    · exact safe_resolveValue cfg g _ _

theorem safe_absentAsNil (r : Res (Option Val)) (h : Safe r) : Safe (absentAsNil r) := by
  cases r with
  | ok o => cases o <;> rfl
  | err c m => rfl
  | fuel => rfl
  | panic x => exact h
  | hang x => exact h

theorem safe_resolveStep (cfg : ReflectCfg) (g : GoodCfg cfg) (cur : Val) (p : Str) : Safe (resolveStep cfg cur p) := by
  unfold resolveStep
  split
  · rfl
  · rfl
  · split
    · rfl
    · exact safe_absentAsNil _ (safe_resolveValue cfg g _ _)

theorem safe_walkPath (cfg : ReflectCfg) (g : GoodCfg cfg) : ∀ (ps : List Str) (cur : Val), Safe (walkPath cfg cur ps)
  | [], _ => rfl
  | p :: rest, cur => by
    have h := safe_resolveStep cfg g cur p
    unfold walkPath
    cases hr : resolveStep cfg cur p with
    | ok v => cases v <;> first | rfl | exact safe_walkPath cfg g rest _
    | err c m => rfl
    | fuel => rfl
    | panic x => rw [hr] at h; cases h
    | hang x => rw [hr] at h; cases h

theorem safe_resolve (cfg : ReflectCfg) (g : GoodCfg cfg) (s : Stack) (e : Str) : Safe (s.resolve cfg e) := by
  unfold Stack.resolve
  split
  · exact safe_lookup cfg g s e
  · split
    · rfl
    · have h := safe_lookup cfg g s ‹Str›
      split
      · rfl
      · exact safe_walkPath cfg g _ _
      · assumption

/-! ### pipes -/

structure GoodParams (P : Params) : Prop where
  cfg : GoodCfg P.cfg
  expr : ∀ e env, Safe (P.exprEval e env)

theorem safe_wrapErr (pre : Str) (r : Res Val) (h : Safe r) : Safe (wrapErr pre r) := by
  cases r <;> first | rfl | exact h

theorem safe_resolveArgument (P : Params) (g : GoodParams P) (s : Stack) (a : Str) : Safe (resolveArgument P s a) := by
  unfold resolveArgument
  simp only []
  split
  · rfl
  · split
    · rfl
    · split
      · rfl
      · split
        · rfl
        · have h := safe_resolve P.cfg g.cfg s (trimSpace a)
          split <;> first | rfl | (rename_i hr; rw [hr] at h; exact h)

theorem safe_mapArgs (P : Params) (g : GoodParams P) (s : Stack) : ∀ (as : List Str), Safe (mapArgs P s as)
  | [] => rfl
  | a :: r => by
    have h1 := safe_resolveArgument P g s a
    have h2 := safe_mapArgs P g s r
    unfold mapArgs
    cases hr : resolveArgument P s a with
    | ok v =>
      simp only []
      cases hm : mapArgs P s r with
      | ok vs => rfl
      | err c m => rfl
      | fuel => rfl
      | panic x => rw [hm] at h2; cases h2
      | hang x => rw [hm] at h2; cases h2
    | err c m => rfl
    | fuel => rfl
    | panic x => rw [hr] at h1; cases h1
    | hang x => rw [hr] at h1; cases h1

theorem safe_arityErr (a b : Nat) : Safe (arityErr a b) := rfl

theorem safe_callBuiltin (name : Str) (args : List Val) (r : Res Val) (h : callBuiltin name args = some r) : Safe r := by
  unfold callBuiltin at h
  simp only [] at h
  repeat' split at h
  all_goals first
    | rfl
    | (simp only [Option.some.injEq] at h; subst h; first | rfl | (split <;> rfl))
    | cases h

/-- `absurd`-style closer: a result known to be safe cannot be `.panic`/`.hang` -/
theorem Safe.not_panic {α : Type} {x : String} (h : Safe (Res.panic x : Res α)) : False := by cases h
theorem Safe.not_hang {α : Type} {x : String} (h : Safe (Res.hang x : Res α)) : False := by cases h

theorem safe_evalSegment (P : Params) (g : GoodParams P) (s : Stack) (seg : Seg) (input : Val) (b : Bool) : Safe (evalSegment P s seg input b) := by
  unfold evalSegment
  cases seg with
  | filter name args =>
    simp only []
    have h := safe_mapArgs P g s args
    cases hm : mapArgs P s args with
    | ok vs =>
      simp only []
      cases hc : callBuiltin name (if b = true then input :: vs else vs) with
      | none => rfl
      | some r => exact safe_wrapErr _ _ (safe_callBuiltin _ _ _ hc)
    | err c m => rfl
    | fuel => rfl
    | panic x => rw [hm] at h; exact h.not_panic.elim
    | hang x => rw [hm] at h; exact h.not_hang.elim
  | expr e => exact safe_wrapErr _ _ (g.expr _ _)

theorem safe_foldSegs (P : Params) (g : GoodParams P) (s : Stack) : ∀ (segs : List Seg) (v : Val), Safe (foldSegs P s segs v)
  | [], _ => rfl
  | seg :: r, v => by
    have h := safe_evalSegment P g s seg v true
    unfold foldSegs
    cases hs : evalSegment P s seg v true with
    | ok v' => exact safe_foldSegs P g s r v'
    | err c m => rfl
    | fuel => rfl
    | panic x => rw [hs] at h; exact h.not_panic.elim
    | hang x => rw [hs] at h; exact h.not_hang.elim

theorem safe_evalPipe (P : Params) (g : GoodParams P) (s : Stack) (pe : PipeExpr) : Safe (evalPipe P s pe) := by
  unfold evalPipe
  split
  · split
    · rename_i first rest _
      have h := safe_evalSegment P g s first .nil false
      cases hs : evalSegment P s first .nil false with
      | ok v => exact safe_foldSegs P g s rest v
      | err c m => rfl
      | fuel => rfl
      | panic x => rw [hs] at h; exact h.not_panic.elim
      | hang x => rw [hs] at h; exact h.not_hang.elim
    · rfl
  · have hr := safe_resolve P.cfg g.cfg s pe.initial
    split
    · exact safe_foldSegs P g s _ _
    · split
      · split
        · rename_i name args _
          have h := safe_evalSegment P g s (.filter name (parseArgs args)) .nil false
          cases hs : evalSegment P s (.filter name (parseArgs args)) .nil false with
          | ok v => exact safe_foldSegs P g s _ v
          | err c m => rfl
          | fuel => rfl
          | panic x => rw [hs] at h; exact h.not_panic.elim
          | hang x => rw [hs] at h; exact h.not_hang.elim
        · rfl
      · split
        · exact safe_foldSegs P g s _ _
        · have he := g.expr pe.initial (s.envMap P.cfg)
          cases hx : P.exprEval pe.initial (s.envMap P.cfg) with
          | ok v => rfl
          | err c m => rfl
          | fuel => rfl
          | panic x => rw [hx] at he; exact he.not_panic.elim
          | hang x => rw [hx] at he; exact he.not_hang.elim
    · rename_i x hx; rw [hx] at hr; exact hr.not_panic.elim
    · rfl
    · rename_i x hx; rw [hx] at hr; exact hr.not_hang.elim
    · rfl

/-! ### interpolation, bound attributes, conditions -/

theorem safe_castErr {α β : Type} (r : Res α) (h : Safe r) : Safe (r.castErr : Res β) := by
  cases r <;> first | rfl | exact h

/-- closes a goal `Safe …` after the surrounding matches were split, from the `Safe` facts about the scrutinees that are in the context -/
macro "safe_close" : tactic =>
  `(tactic| first
    | rfl
    | assumption
    | (apply safe_castErr; assumption)
    | (simp_all [Res.crash]; done))

theorem safe_evalMustache (P : Params) (g : GoodParams P) (s : Stack) (e : Str) : Safe (evalMustache P s e) := by
  unfold evalMustache
  have h1 := safe_evalPipe P g s (parsePipeExpr e)
  have h2 := safe_resolve P.cfg g.cfg s e
  have h3 := g.expr e (s.envMap P.cfg)
  split
  · exact safe_wrapErr _ _ h1
  · repeat' split
    all_goals safe_close

theorem safe_interpolateAux (P : Params) (g : GoodParams P) (s : Stack) : ∀ (f : Nat) (input : Str), Safe (interpolateAux P s f input)
  | 0, _ => rfl
  | f + 1, input => by
    unfold interpolateAux
    cases hi : index input ['{', '{'] with
    | none => rfl
    | some st =>
      simp only []
      cases hj : index (input.drop (st + 2)) ['}', '}'] with
      | none => rfl
      | some en =>
        simp only []
        have h1 := safe_evalMustache P g s (trimExpr ((input.drop (st + 2)).take en))
        have h2 := safe_interpolateAux P g s f ((input.drop (st + 2)).drop (en + 2))
        repeat' split
        all_goals safe_close

theorem safe_interpolate (P : Params) (g : GoodParams P) (s : Stack) (input : Str) : Safe (interpolate P s input) := by
  unfold interpolate
  split
  · rfl
  · exact safe_interpolateAux P g s _ _

theorem safe_parseObjectPairs_fold (P : Params) (g : GoodParams P) (s : Stack) (items : List Str) :
    ∀ (acc : Res (List (Str × Option Val))), Safe acc →
      Safe (items.foldl (fun acc item =>
        match acc with
        | .ok pairs =>
          match splitFirst ':' item with
          | none => .ok pairs
          | some (k, vexpr) =>
            (match P.exprEval (trimSpace vexpr) (s.envMap P.cfg) with
             | .ok v => .ok (pairs ++ [(trim (trimSpace k) ['\''], some v)])
             | .err _ _ =>
               (match s.resolve P.cfg (trimSpace vexpr) with
                | .ok (some v) => .ok (pairs ++ [(trim (trimSpace k) ['\''], some v)])
                | .ok none => .ok (pairs ++ [(trim (trimSpace k) ['\''], none)])
                | r => r.castErr)
             | r => r.castErr)
        | e => e) acc) := by
  induction items with
  | nil => intro acc h; exact h
  | cons item rest ih =>
    intro acc h
    simp only [List.foldl_cons]
    apply ih
    cases acc with
    | ok pairs =>
      simp only []
      cases hsp : splitFirst ':' item with
      | none => rfl
      | some kv =>
        obtain ⟨k, vexpr⟩ := kv
        simp only []
        have h1 := g.expr (trimSpace vexpr) (s.envMap P.cfg)
        have h2 := safe_resolve P.cfg g.cfg s (trimSpace vexpr)
        repeat' split
        all_goals safe_close
    | err c m => rfl
    | fuel => rfl
    | panic x => exact h.not_panic.elim
    | hang x => exact h.not_hang.elim

theorem safe_parseObjectPairs (P : Params) (g : GoodParams P) (s : Stack) (content : Str) : Safe (parseObjectPairs P s content) := by
  unfold parseObjectPairs
  exact safe_parseObjectPairs_fold P g s _ _ rfl

theorem safe_evalObjectBinding (P : Params) (g : GoodParams P) (s : Stack) (a e : Str) : Safe (evalObjectBinding P s a e) := by
  unfold evalObjectBinding
  simp only []
  have h := safe_parseObjectPairs P g s (((trimSpace e).drop 1).dropLast)
  repeat' split
  all_goals safe_close

theorem safe_evalBoundAttribute (P : Params) (g : GoodParams P) (s : Stack) (a e : Str) : Safe (evalBoundAttribute P s a e) := by
  unfold evalBoundAttribute
  simp only []
  have h1 := safe_interpolate P g s (trimSpace e)
  have h2 := safe_evalObjectBinding P g s a (trimSpace e)
  have h3 := safe_evalPipe P g s (parsePipeExpr (trimSpace e))
  have h4 := safe_resolve P.cfg g.cfg s (trimSpace e)
  have h5 := g.expr (trimSpace e) (s.envMap P.cfg)
  generalize interpolate P s (trimSpace e) = r1 at h1
  generalize evalObjectBinding P s a (trimSpace e) = r2 at h2
  generalize evalPipe P s (parsePipeExpr (trimSpace e)) = r3 at h3
  generalize s.resolve P.cfg (trimSpace e) = r4 at h4
  generalize P.exprEval (trimSpace e) (s.envMap P.cfg) = r5 at h5
  by_cases c1 : Generated.containsInterpolation (trimSpace e) = true
  · rw [if_pos c1]; cases r1 <;> safe_close
  · rw [if_neg c1]
    by_cases c2 : (hasPrefix (trimSpace e) ['{'] && hasSuffix (trimSpace e) ['}']) = true
    · rw [if_pos c2]; cases r2 <;> safe_close
    · rw [if_neg c2]
      by_cases c3 : routesToPipe (trimSpace e) = true
      · rw [if_pos c3]; exact h3
      · rw [if_neg c3]
        cases r4 with
        | ok o =>
          cases o with
          | some v => rfl
          | none =>
            simp only []
            cases r5 with
            | ok v => cases v <;> rfl
            | err c m => rfl
            | fuel => rfl
            | panic x => exact h5.not_panic.elim
            | hang x => exact h5.not_hang.elim
        | err c m => safe_close
        | fuel => safe_close
        | panic x => exact h4.not_panic.elim
        | hang x => exact h4.not_hang.elim

theorem safe_evalCondition (P : Params) (g : GoodParams P) (s : Stack) (e : Str) : Safe (evalCondition P s e) := by
  unfold evalCondition
  simp only []
  generalize ExprNorm.normalize (trimSpace e) = x
  have h1 := safe_wrapErr ("in expression '".toList ++ x ++ "': ".toList) _ (safe_evalPipe P g s (parsePipeExpr x))
  have h2 := g.expr x (s.envMap P.cfg)
  have h3 := g.expr (trimSpace (x.drop 1)) (s.envMap P.cfg)
  have h4 := safe_resolve P.cfg g.cfg s (trimSpace (x.drop 1))
  have h5 := safe_resolve P.cfg g.cfg s x
  repeat' split
  all_goals safe_close

end Vuego
