/-
TERMINATION of the evaluator model. `.fuel` is the model's own step bound; here it is shown that the bound is never what ends an
evaluation: for every world (any finite set of component files, include cycles included), context, state and node list there is a fuel
with which `evalList` returns something other than `.fuel` — and by `FuelMono` every larger fuel returns exactly that.

The measure is lexicographic: (how many includes the chain may still grow by — the include limit read from the source —,
10 · (size of the nodes at hand + size of all slot content reachable from the context) + a per-function offset). Every recursive call of
the nine mutually recursive evaluator functions goes down in it: an include shortens the first component (or is the depth error), a slot
moves to content that was counted in the context, a loop instance has lost its `v-for` attribute, everything else moves to a sub-list.
The leaf functions (interpolation, attribute and condition evaluation, the path resolver) do not recurse into the evaluator; that they
do not return `.fuel` themselves is the hypothesis `LeafTotal` (discharged in `TerminatesLeaf.lean` from the same fact about the
expression evaluator parameter).
-/
import Vuego.Lemmas.FuelMono
set_option maxRecDepth 4000
namespace Vuego
open Go

/-! ### results as functions of the fuel -/

def Halts {α : Type} (g : Nat → Res α) : Prop := ∃ f, g f ≠ .fuel
def Mono {α : Type} (g : Nat → Res α) : Prop := ∀ f, Le (g f) (g (f + 1))

/-- converges: monotone in the fuel and not `.fuel` from some fuel on -/
structure Conv {α : Type} (g : Nat → Res α) : Prop where
  mono : Mono g
  halts : Halts g

theorem Mono.ge {α : Type} {g : Nat → Res α} (m : Mono g) {f : Nat} (h : g f ≠ .fuel) : ∀ k, g (f + k) = g f
  | 0 => rfl
  | k + 1 => by
    have ih := Mono.ge m h k
    rcases m (f + k) with hl | hl
    · rw [ih] at hl; exact absurd hl h
    · rw [← Nat.add_assoc, ← hl, ih]

theorem Mono.ge' {α : Type} {g : Nat → Res α} (m : Mono g) {f f' : Nat} (h : g f ≠ .fuel) (hle : f ≤ f') : g f' = g f := by
  obtain ⟨k, rfl⟩ := Nat.exists_eq_add_of_le hle
  exact m.ge h k

theorem conv_const {α : Type} (r : Res α) (h : r ≠ .fuel) : Conv (fun _ => r) :=
  ⟨fun _ => Le.refl _, ⟨0, h⟩⟩

theorem conv_bindR {α β : Type} {g : Nat → R α} {k : Nat → α → St → R β}
    (hg : Conv g) (hk : ∀ a st, Conv (fun f => k f a st)) : Conv (fun f => bindR (g f) (k f)) := by
  refine ⟨fun f => le_bindR (hg.mono f) (fun a st => (hk a st).mono f), ?_⟩
  obtain ⟨f1, h1⟩ := hg.halts
  cases hr : g f1 with
  | ok p =>
    obtain ⟨a, st⟩ := p
    obtain ⟨f2, h2⟩ := (hk a st).halts
    refine ⟨max f1 f2, ?_⟩
    have e1 : g (max f1 f2) = g f1 := hg.mono.ge' h1 (Nat.le_max_left _ _)
    have e2 : k (max f1 f2) a st = k f2 a st := (hk a st).mono.ge' h2 (Nat.le_max_right _ _)
    show bindR (g (max f1 f2)) (k (max f1 f2)) ≠ .fuel
    rw [e1, hr]
    show k (max f1 f2) a st ≠ .fuel
    rw [e2]; exact h2
  | err c m => exact ⟨f1, by show bindR (g f1) (k f1) ≠ .fuel; rw [hr]; intro h; cases h⟩
  | panic s => exact ⟨f1, by show bindR (g f1) (k f1) ≠ .fuel; rw [hr]; intro h; cases h⟩
  | hang s => exact ⟨f1, by show bindR (g f1) (k f1) ≠ .fuel; rw [hr]; intro h; cases h⟩
  | fuel => exact absurd hr h1

theorem conv_bindE {α β : Type} (r : Res α) (hr : r ≠ .fuel) {k : Nat → α → R β}
    (hk : ∀ a, Conv (fun f => k f a)) : Conv (fun f => bindE r (k f)) := by
  cases r with
  | ok a => exact hk a
  | err c m => exact conv_const _ (by intro h; cases h)
  | panic s => exact conv_const _ (by intro h; cases h)
  | hang s => exact conv_const _ (by intro h; cases h)
  | fuel => exact absurd rfl hr

theorem conv_prepend (res : List Node) {g : Nat → R (List Node)} (hg : Conv g) : Conv (fun f => prepend res (g f)) :=
  conv_bindR hg (fun a st => conv_const _ (by intro h; cases h))

theorem conv_ite {α : Type} (c : Prop) [Decidable c] {a b : Nat → Res α} (ha : c → Conv a) (hb : ¬c → Conv b) :
    Conv (fun f => if c then a f else b f) := by
  by_cases h : c
  · simpa [h] using ha h
  · simpa [h] using hb h

/-- a function whose value at `f + 1` converges, converges (its value at 0 is `.fuel`) -/
theorem conv_of_succ {α : Type} {g : Nat → Res α} (m : Mono g) (h : Halts (fun f => g (f + 1))) : Conv g :=
  ⟨m, by obtain ⟨f, hf⟩ := h; exact ⟨f + 1, hf⟩⟩

/-! ### the measure -/

mutual
def nSize : Node → Nat
  | .elem _ attrs kids => 1 + attrs.length + lSize kids
  | _ => 1
def lSize : List Node → Nat
  | [] => 0
  | n :: r => nSize n + lSize r
end

def cSize (c : SlotContent) : Nat := lSize c.nodes + (match c.tmpl with | some tk => lSize tk.2 | none => 0)
def scSize : SlotScope → Nat
  | [] => 0
  | (_, c) :: r => cSize c + scSize r
def slotsSize : List SlotScope → Nat
  | [] => 0
  | sc :: r => scSize sc + slotsSize r

/-- what a context can still hand out: the content of its slot scopes and the content the page handed to its layout chain -/
def ctxSize (ctx : Ctx) : Nat := slotsSize ctx.slots + scSize ctx.inherited

theorem nSize_pos (n : Node) : 0 < nSize n := by cases n <;> simp [nSize] <;> omega

theorem lSize_drop_le : ∀ (k : Nat) (ns : List Node), lSize (ns.drop k) ≤ lSize ns
  | 0, ns => by simp
  | _ + 1, [] => by simp
  | k + 1, n :: r => by
    simp only [List.drop_succ_cons, lSize]
    have := lSize_drop_le k r
    omega

theorem nSize_getElem_le : ∀ (ns : List Node) (i : Nat) (n : Node), ns[i]? = some n → nSize n ≤ lSize ns
  | [], _, _, h => by simp at h
  | x :: r, 0, n, h => by
    simp only [List.getElem?_cons_zero, Option.some.injEq] at h
    subst h; simp only [lSize]; omega
  | x :: r, i + 1, n, h => by
    simp only [List.getElem?_cons_succ] at h
    have := nSize_getElem_le r i n h
    simp only [lSize]; omega

theorem scSize_lookup (sc : SlotScope) (name : Str) (c : SlotContent) (h : sc.lookup name = some c) : cSize c ≤ scSize sc := by
  induction sc with
  | nil => simp at h
  | cons e r ih =>
    obtain ⟨n', c'⟩ := e
    simp only [List.lookup] at h
    split at h
    · simp only [Option.some.injEq] at h; subst h; simp only [scSize]; omega
    · have := ih h; simp only [scSize]; omega

theorem removeAttr_length_le (attrs : List Attr) (k : Str) : (removeAttr attrs k).length ≤ attrs.length := by
  unfold removeAttr; exact List.length_filter_le _ _

theorem removeAttr_length_lt (attrs : List Attr) (k : Str) (h : hasAttr attrs k = true) : (removeAttr attrs k).length < attrs.length := by
  induction attrs with
  | nil => simp [hasAttr] at h
  | cons a r ih =>
    simp only [hasAttr, List.any_cons, Bool.or_eq_true] at h
    simp only [removeAttr, List.filter_cons]
    by_cases ha : (a.1 == k) = true
    · simp only [bne, ha, Bool.not_true, Bool.false_eq_true, ↓reduceIte, List.length_cons]
      have := List.length_filter_le (fun a => !(a.1 == k)) r
      omega
    · have hr : hasAttr r k = true := by
        rcases h with h | h
        · exact absurd h ha
        · exact h
      have := ih hr
      simp only [removeAttr, bne] at this
      simp only [bne, ha, Bool.not_false, ↓reduceIte, List.length_cons]
      omega

theorem hasAttr_of_getAttr_ne (attrs : List Attr) (k : Str) (h : getAttr attrs k ≠ []) : hasAttr attrs k = true := by
  induction attrs with
  | nil => simp [getAttr] at h
  | cons a r ih =>
    obtain ⟨k', v'⟩ := a
    simp only [hasAttr, List.any_cons, Bool.or_eq_true]
    by_cases hk : (k == k') = true
    · left
      have : k = k' := by simpa using hk
      subst this; simp
    · right
      have : getAttr r k ≠ [] := by
        simp only [getAttr, List.lookup] at h
        have hk' : (k == k') = false := by simpa using hk
        simp only [hk'] at h
        exact h
      exact ih this

theorem loopInstanceAttrs_length_lt (attrs : List Attr) (h : hasAttr attrs (S "v-for") = true) :
    (loopInstanceAttrs attrs).length < attrs.length := by
  unfold loopInstanceAttrs
  have h1 := removeAttr_length_lt attrs (S "v-for") h
  have h2 := removeAttr_length_le (removeAttr attrs (S "v-for")) (S "v-else-if")
  have h3 := removeAttr_length_le (removeAttr (removeAttr attrs (S "v-for")) (S "v-else-if")) (S "v-else")
  omega

/-! ### the leaves -/

/-- the non-recursive pieces the evaluator calls do not return `.fuel` -/
structure LeafTotal (W : World) : Prop where
  interp : ∀ s d, interpolate W.P s d ≠ .fuel
  chain : ∀ s e rest, chainSelect (evalCondition W.P s) e rest ≠ .fuel
  prologue : ∀ s a, elementPrologue W.P s a ≠ .fuel
  resolve : ∀ (s : Stack) e, s.resolve W.P.cfg e ≠ .fuel
  attrs : ∀ s a, evalAttributes W.P s a ≠ .fuel
  vcontent : ∀ s a d k b, evalVContent W.P s a d k b ≠ .fuel
  tmplAttrs : ∀ a s, setTemplateAttrs W.P W.jsonDecode a s ≠ .fuel

theorem parseFor_ne_fuel (e : Str) : parseFor e ≠ .fuel := by
  unfold parseFor
  simp only []
  split
  · intro h; cases h
  · split
    · intro h; cases h
    · split <;> (intro h; cases h)

/-! ### calls and their rank -/

inductive Call where
  | list (ctx : Ctx) (ns : List Node)
  | plain (ctx : Ctx) (tag : Str) (attrs : List Attr) (kids : List Node)
  | asElem (ctx : Ctx) (tag : Str) (attrs : List Attr) (kids : List Node)
  | vfor (ctx : Ctx) (tag : Str) (attrs : List Attr) (kids rest : List Node)
  | for_ (ctx : Ctx) (tag : Str) (attrs : List Attr) (kids : List Node) (e : Str)
  | items (ctx : Ctx) (tag : Str) (attrs : List Attr) (kids : List Node) (vars : List Str)
  | tmpl (ctx : Ctx) (attrs : List Attr) (kids : List Node)
  | incl (ctx : Ctx) (attrs : List Attr) (kids : List Node) (vars : Scope)
  | slot (ctx : Ctx) (attrs : List Attr) (kids : List Node)

def Call.ctx : Call → Ctx
  | .list c _ | .plain c _ _ _ | .asElem c _ _ _ | .vfor c _ _ _ _ | .for_ c _ _ _ _ | .items c _ _ _ _ | .tmpl c _ _ | .incl c _ _ _ | .slot c _ _ => c

/-- how many includes the chain can still grow by -/
def Call.depth (c : Call) : Nat := includeLimit + 1 - c.ctx.chain.length

def Call.meas : Call → Nat
  | .list ctx ns => 10 * (lSize ns + ctxSize ctx) + 7
  | .plain ctx _ attrs kids => 10 * (1 + attrs.length + lSize kids + ctxSize ctx) + 4
  | .asElem ctx _ attrs kids => 10 * (1 + attrs.length + lSize kids + ctxSize ctx) + 5
  | .vfor ctx _ attrs kids rest => 10 * (1 + attrs.length + lSize kids + lSize rest + ctxSize ctx) + 6
  | .for_ ctx _ attrs kids _ => 10 * (1 + (loopInstanceAttrs attrs).length + lSize kids + ctxSize ctx) + 9
  | .items ctx _ attrs kids _ => 10 * (1 + attrs.length + lSize kids + ctxSize ctx) + 8
  | .tmpl ctx attrs kids => 10 * (1 + attrs.length + lSize kids + ctxSize ctx) + 3
  | .incl _ _ _ _ => 0
  | .slot ctx attrs kids => 10 * (1 + attrs.length + lSize kids + ctxSize ctx) + 3

/-- the call converges, from every state -/
def Call.Conv (W : World) : Call → Prop
  | .list ctx ns => ∀ st, Vuego.Conv (fun f => evalList W f ctx st ns)
  | .plain ctx tag attrs kids => ∀ st, Vuego.Conv (fun f => evalPlain W f ctx st tag attrs kids)
  | .asElem ctx tag attrs kids => ∀ st, Vuego.Conv (fun f => evalAsElement W f ctx st tag attrs kids)
  | .vfor ctx tag attrs kids rest => ∀ st, Vuego.Conv (fun f => evalVFor W f ctx st tag attrs kids rest)
  | .for_ ctx tag attrs kids e => ∀ st, Vuego.Conv (fun f => evalFor W f ctx st tag attrs kids e)
  | .items ctx tag attrs kids vars => ∀ st xs i, Vuego.Conv (fun f => evalForItems W f ctx st tag attrs kids vars xs i)
  | .tmpl ctx attrs kids => ∀ st, Vuego.Conv (fun f => evalTemplate W f ctx st attrs kids)
  | .incl ctx attrs kids vars => ∀ st, Vuego.Conv (fun f => evalInclude W f ctx st attrs kids vars)
  | .slot ctx attrs kids => ∀ st, Vuego.Conv (fun f => evalSlot W f ctx st attrs kids)

/-- smaller in the lexicographic order (depth, measure) -/
def Call.Below (c' c : Call) : Prop := c'.depth < c.depth ∨ (c'.depth ≤ c.depth ∧ c'.meas < c.meas)

end Vuego

namespace Vuego
open Go

section step
variable (W : World)

theorem mono_list (ctx : Ctx) (st : St) (ns : List Node) : Mono (fun f => evalList W f ctx st ns) :=
  fun f => (monoAt_all W f).list ctx st ns

/-- what the induction hypothesis gives for a list call -/
theorem ih_list {c : Call} (ih : ∀ c' : Call, c'.Below c → c'.Conv W) (ctx : Ctx) (ns : List Node) (h : (Call.list ctx ns).Below c) (st : St) :
    Conv (fun f => evalList W f ctx st ns) := ih _ h st

theorem step_plain (L : LeafTotal W) (ctx : Ctx) (tag : Str) (attrs : List Attr) (kids : List Node)
    (ih : ∀ c' : Call, c'.Below (.plain ctx tag attrs kids) → c'.Conv W) : (Call.plain ctx tag attrs kids).Conv W := by
  intro st
  refine conv_of_succ (fun f => (monoAt_all W f).plain ctx st tag attrs kids) (Conv.halts ?_)
  simp only [evalPlain]
  refine conv_bindE _ (L.prologue _ _) (fun pr => ?_)
  refine conv_ite _ (fun _ => conv_const _ (by intro h; cases h)) (fun _ => ?_)
  refine conv_bindR (ih (Call.list ctx kids) ?_ st) (fun ks st' => conv_const _ (by intro h; cases h))
  right; simp only [Call.depth, Call.ctx, Call.meas]; omega


theorem ok_ne_fuel {α : Type} (a : α) : (Res.ok a : Res α) ≠ .fuel := by intro h; cases h
theorem err_ne_fuel {α : Type} (c : String) (m : Str) : (Res.err c m : Res α) ≠ .fuel := by intro h; cases h

theorem step_asElem (ctx : Ctx) (tag : Str) (attrs : List Attr) (kids : List Node)
    (ih : ∀ c' : Call, c'.Below (.asElem ctx tag attrs kids) → c'.Conv W) : (Call.asElem ctx tag attrs kids).Conv W := by
  intro st
  refine conv_of_succ (fun f => (monoAt_all W f).asElem ctx st tag attrs kids) (Conv.halts ?_)
  simp only [evalAsElement]
  refine conv_ite _ (fun hv => ?_) (fun _ => conv_ite _ (fun _ => ?_) (fun _ => conv_ite _ (fun _ => conv_ite _ (fun _ => ?_) (fun _ => ?_)) (fun _ => ?_)))
  · refine ih (Call.for_ ctx tag attrs kids (getAttr attrs (S "v-for"))) ?_ st
    have := loopInstanceAttrs_length_lt attrs (hasAttr_of_getAttr_ne attrs _ (by simpa using hv))
    right; simp only [Call.depth, Call.ctx, Call.meas]; omega
  · refine ih (Call.slot ctx attrs kids) ?_ st
    right; simp only [Call.depth, Call.ctx, Call.meas]; omega
  · refine ih (Call.tmpl ctx attrs kids) ?_ st
    right; simp only [Call.depth, Call.ctx, Call.meas]; omega
  · refine ih (Call.list ctx kids) ?_ _
    right; simp only [Call.depth, Call.ctx, Call.meas]; omega
  · refine ih (Call.plain ctx tag attrs kids) ?_ st
    right; simp only [Call.depth, Call.ctx, Call.meas]; omega

theorem step_vfor (ctx : Ctx) (tag : Str) (attrs : List Attr) (kids rest : List Node)
    (ih : ∀ c' : Call, c'.Below (.vfor ctx tag attrs kids rest) → c'.Conv W) : (Call.vfor ctx tag attrs kids rest).Conv W := by
  intro st
  refine conv_of_succ (fun f => (monoAt_all W f).vfor ctx st tag attrs kids rest) (Conv.halts ?_)
  simp only [evalVFor]
  refine conv_ite _ (fun _ => conv_const _ (ok_ne_fuel _)) (fun hv => ?_)
  have hlt := loopInstanceAttrs_length_lt attrs (hasAttr_of_getAttr_ne attrs _ (by simpa using hv))
  refine conv_bindR (ih (Call.for_ ctx tag attrs kids (getAttr attrs (S "v-for"))) ?_ st) (fun loopNodes st1 => ?_)
  · right; simp only [Call.depth, Call.ctx, Call.meas]; omega
  refine conv_ite _ (fun _ => conv_const _ (ok_ne_fuel _)) (fun _ => ?_)
  generalize hj : (rest.takeWhile (fun x => !isElem x)).length = j
  cases ho : rest[j]? with
  | none => exact conv_const _ (ok_ne_fuel _)
  | some n =>
    cases n with
    | text d => exact conv_const _ (ok_ne_fuel _)
    | comment d => exact conv_const _ (ok_ne_fuel _)
    | doctype d => exact conv_const _ (ok_ne_fuel _)
    | elem t a k =>
      simp only []
      refine conv_ite _ (fun _ => ?_) (fun _ => conv_const _ (ok_ne_fuel _))
      cases onceGate st1 a with
      | none => exact conv_const _ (ok_ne_fuel _)
      | some st1' =>
        refine conv_bindR (ih (Call.asElem ctx t a k) ?_ st1') (fun res st2 => conv_const _ (ok_ne_fuel _))
        have := nSize_getElem_le rest j _ ho
        simp only [nSize] at this
        right; simp only [Call.depth, Call.ctx, Call.meas]; omega

theorem step_for (L : LeafTotal W) (ctx : Ctx) (tag : Str) (attrs : List Attr) (kids : List Node) (e : Str)
    (ih : ∀ c' : Call, c'.Below (.for_ ctx tag attrs kids e) → c'.Conv W) : (Call.for_ ctx tag attrs kids e).Conv W := by
  intro st
  refine conv_of_succ (fun f => (monoAt_all W f).for_ ctx st tag attrs kids e) (Conv.halts ?_)
  simp only [evalFor]
  refine conv_bindE _ (parseFor_ne_fuel _) (fun vc => conv_bindE _ (L.resolve _ _) (fun coll => ?_))
  have hb : (Call.items ctx tag (loopInstanceAttrs attrs) kids vc.1).Below (.for_ ctx tag attrs kids e) := by
    right; simp only [Call.depth, Call.ctx, Call.meas]; omega
  cases coll with
  | none => exact conv_const _ (ok_ne_fuel _)
  | some v =>
    cases v <;> first
      | exact conv_const _ (ok_ne_fuel _)
      | exact ih _ hb st _ 0

theorem step_items (ctx : Ctx) (tag : Str) (attrs : List Attr) (kids : List Node) (vars : List Str)
    (ih : ∀ c' : Call, c'.Below (.items ctx tag attrs kids vars) → c'.Conv W) : (Call.items ctx tag attrs kids vars).Conv W := by
  intro st xs
  induction xs generalizing st with
  | nil =>
    intro i
    exact conv_of_succ (fun f => (monoAt_all W f).items ctx st tag attrs kids vars [] i) ⟨0, by simp only [evalForItems]; exact ok_ne_fuel _⟩
  | cons x xs ihx =>
    intro i
    refine conv_of_succ (fun f => (monoAt_all W f).items ctx st tag attrs kids vars (x :: xs) i) (Conv.halts ?_)
    simp only [evalForItems]
    cases loopStack st.stack vars x i with
    | none => exact conv_const _ (err_ne_fuel _ _)
    | some sk =>
      simp only []
      refine conv_bindR (ih (Call.list ctx [.elem tag attrs kids]) ?_ _) (fun res st1 => conv_prepend _ (ihx _ _))
      right; simp only [Call.depth, Call.ctx, Call.meas, lSize, nSize]; omega

theorem step_tmpl (L : LeafTotal W) (ctx : Ctx) (attrs : List Attr) (kids : List Node)
    (ih : ∀ c' : Call, c'.Below (.tmpl ctx attrs kids) → c'.Conv W) : (Call.tmpl ctx attrs kids).Conv W := by
  intro st
  refine conv_of_succ (fun f => (monoAt_all W f).tmpl ctx st attrs kids) (Conv.halts ?_)
  simp only [evalTemplate]
  refine conv_ite _ (fun _ => ?_) (fun _ => ?_)
  · refine conv_bindE _ (L.attrs _ _) (fun av => ih (Call.incl ctx av.1 kids _) ?_ st)
    right; simp only [Call.depth, Call.ctx, Call.meas]; omega
  · cases checkRequired attrs (st.stack.envMap W.P.cfg) with
    | some missing => exact conv_const _ (err_ne_fuel _ _)
    | none =>
      simp only []
      refine conv_bindE _ (L.vcontent _ _ _ _ _) (fun h => ?_)
      cases h with
      | some attrs' => exact conv_const _ (ok_ne_fuel _)
      | none =>
        simp only []
        refine conv_ite _ (fun _ => conv_const _ (ok_ne_fuel _)) (fun _ => ?_)
        refine conv_bindE _ (L.tmplAttrs _ _) (fun sk => ih (Call.list ctx kids) ?_ _)
        right; simp only [Call.depth, Call.ctx, Call.meas]; omega

theorem step_incl (ctx : Ctx) (attrs : List Attr) (kids : List Node) (vars : Scope)
    (ih : ∀ c' : Call, c'.Below (.incl ctx attrs kids vars) → c'.Conv W) : (Call.incl ctx attrs kids vars).Conv W := by
  intro st
  refine conv_of_succ (fun f => (monoAt_all W f).incl ctx st attrs kids vars) (Conv.halts ?_)
  simp only [evalInclude]
  refine conv_ite _ (fun _ => conv_const _ (err_ne_fuel _ _)) (fun hle => ?_)
  cases W.files.lookup (getAttr attrs (S "include")) with
  | none => exact conv_const _ (err_ne_fuel _ _)
  | some fd =>
    obtain ⟨fm, dom⟩ := fd
    simp only []
    cases wrapperRequired (resolveTagsList W.comps (assignSeenAttrs (getAttr attrs (S "include")) dom))
        ((setMany (st.stack.push vars) fm).envMap W.P.cfg) with
    | some missing => exact conv_const _ (err_ne_fuel _ _)
    | none =>
      simp only []
      refine conv_bindR (ih (Call.list _ _) ?_ _) (fun res st1 => conv_const _ (ok_ne_fuel _))
      left; simp only [Call.depth, Call.ctx, List.length_append, List.length_singleton]; omega

theorem step_slot (ctx : Ctx) (attrs : List Attr) (kids : List Node)
    (ih : ∀ c' : Call, c'.Below (.slot ctx attrs kids) → c'.Conv W) : (Call.slot ctx attrs kids).Conv W := by
  intro st
  refine conv_of_succ (fun f => (monoAt_all W f).slot ctx st attrs kids) (Conv.halts ?_)
  simp only [evalSlot]
  -- supplied content (from a slot scope or from the page), evaluated in a context that no longer holds it
  have hsup : ∀ (content : SlotContent) (ctx' : Ctx), ctx'.chain = ctx.chain → cSize content + ctxSize ctx' ≤ ctxSize ctx →
      Conv (fun f => match content.tmpl with
        | some tk =>
          bindR (evalList W f ctx' { st with stack := slotScopeStack st.stack (scopedVarName tk.1) (slotProps W.P (st.stack.envMap W.P.cfg) attrs) } tk.2)
            (fun res st1 => Res.ok (res, { st1 with stack := st1.stack.pop }))
        | none => evalList W f ctx' st content.nodes) := by
    intro content ctx' hch hsz
    cases ht : content.tmpl with
    | none =>
      simp only []
      refine ih (Call.list _ _) ?_ st
      right; simp only [Call.depth, Call.ctx, Call.meas, hch]; simp only [cSize, ht] at hsz; omega
    | some tk =>
      simp only []
      refine conv_bindR (ih (Call.list _ _) ?_ _) (fun res st1 => conv_const _ (ok_ne_fuel _))
      right; simp only [Call.depth, Call.ctx, Call.meas, hch]; simp only [cSize, ht] at hsz; omega
  have hk : Conv (fun f => match ctx.inherited.lookup (if getAttr attrs (S "name") == [] then S "default" else getAttr attrs (S "name")) with
      | some content =>
        (match content.tmpl with
         | some tk =>
           bindR (evalList W f { ctx with slots := [], inherited := [] } { st with stack := slotScopeStack st.stack (scopedVarName tk.1) (slotProps W.P (st.stack.envMap W.P.cfg) attrs) } tk.2)
             (fun res st1 => Res.ok (res, { st1 with stack := st1.stack.pop }))
         | none => evalList W f { ctx with slots := [], inherited := [] } st content.nodes)
      | none => if (!kids.isEmpty) = true then evalList W f ctx st kids else Res.ok ([], st)) := by
    cases hl : ctx.inherited.lookup (if getAttr attrs (S "name") == [] then S "default" else getAttr attrs (S "name")) with
    | some content =>
      have hc := scSize_lookup ctx.inherited _ content hl
      exact hsup content _ rfl (by simp only [ctxSize, slotsSize, scSize]; omega)
    | none =>
      refine conv_ite _ (fun _ => ih (Call.list ctx kids) ?_ st) (fun _ => conv_const _ (ok_ne_fuel _))
      right; simp only [Call.depth, Call.ctx, Call.meas]; omega
  obtain ⟨slots, chain, inherited⟩ := ctx
  cases slots with
  | nil => exact hk
  | cons sc outer =>
    simp only []
    cases hl : sc.lookup (if getAttr attrs (S "name") == [] then S "default" else getAttr attrs (S "name")) with
    | none => exact hk
    | some content =>
      have hc := scSize_lookup sc _ content hl
      exact hsup content _ rfl (by simp only [ctxSize, slotsSize]; omega)

theorem below_list_sub {ctx : Ctx} {n : Node} {rest ns' : List Node} (h : lSize ns' ≤ lSize rest) :
    (Call.list ctx ns').Below (.list ctx (n :: rest)) := by
  have := nSize_pos n
  right; simp only [Call.depth, Call.ctx, Call.meas, lSize]; omega

theorem step_elemBody (ctx : Ctx) (tag : Str) (attrs : List Attr) (kids rest : List Node)
    (ih : ∀ c' : Call, c'.Below (.list ctx (.elem tag attrs kids :: rest)) → c'.Conv W) (L : LeafTotal W) (st : St) :
    Conv (fun f => elemBody W f ctx st tag attrs kids rest) := by
  have hrest : ∀ k st', Conv (fun f => evalList W f ctx st' (rest.drop k)) :=
    fun k st' => ih _ (below_list_sub (lSize_drop_le k rest)) st'
  have hrest0 : ∀ st', Conv (fun f => evalList W f ctx st' rest) := fun st' => by simpa using hrest 0 st'
  unfold elemBody
  refine conv_ite _ (fun _ => conv_prepend _ (hrest0 _)) (fun _ => ?_)
  refine conv_ite _ (fun _ => hrest0 _) (fun _ => ?_)
  refine conv_ite _ (fun _ => ?_) (fun _ => ?_)
  · refine conv_bindR (ih (Call.vfor ctx tag attrs kids rest) ?_ st) (fun rs st1 => conv_prepend _ (hrest _ _))
    right; simp only [Call.depth, Call.ctx, Call.meas, lSize, nSize]; omega
  refine conv_ite _ (fun _ => ?_) (fun _ => ?_)
  · refine conv_bindE _ (L.chain _ _ _) (fun ps => ?_)
    obtain ⟨pick, skip⟩ := ps
    cases pick with
    | none => exact hrest _ _
    | member idx =>
      cases idx with
      | zero =>
        simp only []
        cases onceGate st attrs with
        | none => exact hrest _ _
        | some st' =>
          refine conv_bindR (ih (Call.asElem ctx tag attrs kids) ?_ st') (fun res st1 => conv_prepend _ (hrest _ _))
          right; simp only [Call.depth, Call.ctx, Call.meas, lSize, nSize]; omega
      | succ i =>
        simp only []
        cases ho : rest[i]? with
        | none => exact hrest _ _
        | some n =>
          cases n with
          | text d => exact hrest _ _
          | comment d => exact hrest _ _
          | doctype d => exact hrest _ _
          | elem t a k =>
            simp only []
            cases onceGate st a with
            | none => exact hrest _ _
            | some st' =>
              refine conv_bindR (ih (Call.asElem ctx t a k) ?_ st') (fun res st1 => conv_prepend _ (hrest _ _))
              have := nSize_getElem_le rest i _ ho
              simp only [nSize] at this
              right; simp only [Call.depth, Call.ctx, Call.meas, lSize, nSize]; omega
  refine conv_ite _ (fun _ => ?_) (fun _ => ?_)
  · refine conv_bindR (ih (Call.slot ctx attrs kids) ?_ st) (fun res st1 => conv_prepend _ (hrest0 _))
    right; simp only [Call.depth, Call.ctx, Call.meas, lSize, nSize]; omega
  refine conv_ite _ (fun _ => ?_) (fun _ => ?_)
  · refine conv_bindR (ih (Call.tmpl ctx attrs kids) ?_ st) (fun res st1 => conv_prepend _ (hrest0 _))
    right; simp only [Call.depth, Call.ctx, Call.meas, lSize, nSize]; omega
  · refine conv_bindR (ih (Call.plain ctx tag attrs kids) ?_ st) (fun res st1 => conv_prepend _ (hrest0 _))
    right; simp only [Call.depth, Call.ctx, Call.meas, lSize, nSize]; omega

theorem step_list (L : LeafTotal W) (ctx : Ctx) (ns : List Node)
    (ih : ∀ c' : Call, c'.Below (.list ctx ns) → c'.Conv W) : (Call.list ctx ns).Conv W := by
  intro st
  refine conv_of_succ (mono_list W ctx st ns) (Conv.halts ?_)
  cases ns with
  | nil => simp only [evalList]; exact conv_const _ (ok_ne_fuel _)
  | cons n rest =>
    have hrest : ∀ st', Conv (fun f => evalList W f ctx st' rest) := fun st' => ih _ (below_list_sub (Nat.le_refl _)) st'
    cases n with
    | text d =>
      simp only [evalList]
      have hi := L.interp st.stack d
      cases hI : interpolate W.P st.stack d with
      | ok t => exact conv_prepend _ (hrest _)
      | err c m => exact conv_const _ (err_ne_fuel _ _)
      | panic s => exact conv_const _ (by intro h; cases h)
      | hang s => exact conv_const _ (by intro h; cases h)
      | fuel => exact absurd hI hi
    | comment d => simp only [evalList]; exact conv_prepend _ (hrest _)
    | doctype d => simp only [evalList]; exact conv_prepend _ (hrest _)
    | elem tag attrs kids =>
      simp only [evalList_elem]
      exact conv_ite _ (fun _ => hrest _) (fun _ => step_elemBody W ctx tag attrs kids rest ih L _)

/-- one step of the well-founded induction: a call converges if every call below it does -/
theorem step (L : LeafTotal W) (c : Call) (ih : ∀ c' : Call, c'.Below c → c'.Conv W) : c.Conv W := by
  cases c with
  | list ctx ns => exact step_list W L ctx ns ih
  | plain ctx tag attrs kids => exact step_plain W L ctx tag attrs kids ih
  | asElem ctx tag attrs kids => exact step_asElem W ctx tag attrs kids ih
  | vfor ctx tag attrs kids rest => exact step_vfor W ctx tag attrs kids rest ih
  | for_ ctx tag attrs kids e => exact step_for W L ctx tag attrs kids e ih
  | items ctx tag attrs kids vars => exact step_items W ctx tag attrs kids vars ih
  | tmpl ctx attrs kids => exact step_tmpl W L ctx attrs kids ih
  | incl ctx attrs kids vars => exact step_incl W ctx attrs kids vars ih
  | slot ctx attrs kids => exact step_slot W ctx attrs kids ih

/-- every call of every evaluator function converges -/
theorem conv_all (L : LeafTotal W) (c : Call) : c.Conv W := by
  have key : ∀ d m (c : Call), c.depth ≤ d → c.meas ≤ m → c.Conv W := by
    intro d
    induction d using Nat.strongRecOn with
    | _ d ihd =>
      intro m
      induction m using Nat.strongRecOn with
      | _ m ihm =>
        intro c hd hm
        refine step W L c (fun c' hb => ?_)
        rcases hb with hb | ⟨hb1, hb2⟩
        · exact ihd c'.depth (by omega) c'.meas c' (Nat.le_refl _) (Nat.le_refl _)
        · exact ihm c'.meas (by omega) c' (by omega) (Nat.le_refl _)
  exact key _ _ c (Nat.le_refl _) (Nat.le_refl _)

end step

/-- TERMINATION: for every world, context, state and node list some fuel is enough — `.fuel` is never the evaluator's final word -/
theorem evalList_halts (W : World) (L : LeafTotal W) (ctx : Ctx) (st : St) (ns : List Node) : ∃ f, evalList W f ctx st ns ≠ .fuel :=
  (conv_all W L (.list ctx ns) st).halts

/-- … and with that fuel or any larger one the answer is the same -/
theorem evalList_total (W : World) (L : LeafTotal W) (ctx : Ctx) (st : St) (ns : List Node) :
    ∃ f r, r ≠ .fuel ∧ ∀ f' ≥ f, evalList W f' ctx st ns = r := by
  obtain ⟨f, hf⟩ := evalList_halts W L ctx st ns
  exact ⟨f, _, hf, fun f' hle => (mono_list W ctx st ns).ge' hf hle⟩

end Vuego
