import Vuego.Model.Eval
import Vuego.Lemmas.Stack
namespace Vuego
open Go

/-! ### the frame relation: what an evaluation step may do to the variable stack and the `seen` set -/

/-- same depth, every scope below the top one untouched, root data untouched -/
def StackFrame (s s' : Stack) : Prop :=
  s'.scopes.length = s.scopes.length ∧ s'.scopes.dropLast = s.scopes.dropLast ∧ s'.root = s.root

def Frame (st st' : St) : Prop := StackFrame st.stack st'.stack ∧ ∀ x ∈ st.seen, x ∈ st'.seen

theorem StackFrame.refl (s : Stack) : StackFrame s s := ⟨rfl, rfl, rfl⟩

theorem StackFrame.trans {a b c : Stack} (h1 : StackFrame a b) (h2 : StackFrame b c) : StackFrame a c :=
  ⟨h2.1.trans h1.1, h2.2.1.trans h1.2.1, h2.2.2.trans h1.2.2⟩

theorem Frame.refl (st : St) : Frame st st := ⟨StackFrame.refl _, fun _ h => h⟩

theorem Frame.trans {a b c : St} (h1 : Frame a b) (h2 : Frame b c) : Frame a c :=
  ⟨h1.1.trans h2.1, fun x hx => h2.2 x (h1.2 x hx)⟩

theorem onceGate_frame {st st' : St} {a : List Attr} (h : onceGate st a = some st') : Frame st st' := by
  unfold onceGate at h
  split at h
  · split at h
    · cases h
    · simp only [Option.some.injEq] at h; subst h
      exact ⟨StackFrame.refl _, fun x hx => by simp [hx]⟩
  · simp only [Option.some.injEq] at h; subst h; exact Frame.refl st

theorem StackFrame.nonempty {s s' : Stack} (h : StackFrame s s') (hs : s.scopes ≠ []) : s'.scopes ≠ [] := by
  intro he
  have := h.1
  rw [he] at this
  simp at this
  exact hs (List.eq_nil_of_length_eq_zero this.symm)

theorem setTop_frame (l : List Scope) (hl : l ≠ []) (k : Str) (v : Val) :
    (Stack.setTop l k v).length = l.length ∧ (Stack.setTop l k v).dropLast = l.dropLast := by
  obtain ⟨pre, last, rfl⟩ : ∃ pre last, l = pre ++ [last] := ⟨l.dropLast, l.getLast hl, (List.dropLast_concat_getLast hl).symm⟩
  rw [Stack.setTop_concat]
  simp

theorem set_frame (s : Stack) (hs : s.scopes ≠ []) (k : Str) (v : Val) : StackFrame s (s.set k v) := by
  have := setTop_frame s.scopes hs k v
  exact ⟨this.1, this.2, rfl⟩

theorem setMany_frame (s : Stack) (hs : s.scopes ≠ []) (kvs : Scope) : StackFrame s (setMany s kvs) := by
  unfold setMany
  induction kvs generalizing s with
  | nil => exact StackFrame.refl s
  | cons kv r ih =>
    simp only [List.foldl_cons]
    have h1 := set_frame s hs kv.1 kv.2
    exact h1.trans (ih _ (h1.nonempty hs))

theorem push_scopes (s : Stack) (m : Scope) : (s.push m).scopes = s.scopes ++ [m] ∧ (s.push m).root = s.root := ⟨rfl, rfl⟩

/-- a step that is a frame over a pushed stack, followed by pop, restores the original stack exactly -/
theorem pop_of_frame_push (s t : Stack) (m : Scope) (hs : s.scopes ≠ []) (h : StackFrame (s.push m) t) : t.pop = s := by
  obtain ⟨hl, hd, hr⟩ := h
  simp only [Stack.push, List.length_append, List.length_singleton, List.dropLast_concat] at hl hd hr
  cases t with
  | mk ts tr =>
    simp only at hl hd hr
    have hne : ts ≠ [] := by intro e; rw [e] at hl; simp at hl
    obtain ⟨pre, last, rfl⟩ : ∃ pre last, ts = pre ++ [last] := ⟨ts.dropLast, ts.getLast hne, (List.dropLast_concat_getLast hne).symm⟩
    simp only [List.dropLast_concat] at hd
    subst hd
    subst hr
    cases s with
    | mk ss sr =>
      simp only at hs ⊢
      exact Stack.pop_concat ss last sr hs

theorem St.frame_of_stack {st : St} {s' : Stack} (h : StackFrame st.stack s') : Frame st { st with stack := s' } :=
  ⟨h, fun _ hx => hx⟩

/-! ### propagateTemplateAttributes touches only the scope below the top one -/

/-- what propagation may do to a stack of depth ≥ 2: top scope and everything below the second scope untouched -/
def PropFrame (s s' : Stack) : Prop :=
  s'.scopes.length = s.scopes.length ∧ s'.scopes.dropLast.dropLast = s.scopes.dropLast.dropLast ∧ s'.root = s.root

theorem PropFrame.refl (s : Stack) : PropFrame s s := ⟨rfl, rfl, rfl⟩
theorem PropFrame.trans {a b c : Stack} (h1 : PropFrame a b) (h2 : PropFrame b c) : PropFrame a c :=
  ⟨h2.1.trans h1.1, h2.2.1.trans h1.2.1, h2.2.2.trans h1.2.2⟩

theorem propagate_one (cfg : ReflectCfg) (st : Stack) (name : Str) (h2 : 2 ≤ st.scopes.length) :
    PropFrame st (match st.lookup cfg name with
      | .ok (some v) => (match st.scopes.reverse with
          | top :: below => { st with scopes := (Stack.setTop below.reverse name v) ++ [top] }
          | [] => st)
      | _ => st) := by
  cases st.lookup cfg name with
  | ok o =>
    cases o with
    | none => exact PropFrame.refl st
    | some v =>
      simp only []
      cases hrev : st.scopes.reverse with
      | nil => exact PropFrame.refl st
      | cons top below =>
        simp only []
        have hsc : st.scopes = below.reverse ++ [top] := by
          have := congrArg List.reverse hrev; simpa using this
        refine ⟨?_, ?_, rfl⟩
        · simp only [List.length_append, List.length_singleton, hsc]
          cases hb : below.reverse with
          | nil => rw [hsc, hb] at h2; simp at h2
          | cons x y =>
            have := setTop_frame (x :: y) (by simp) name v
            rw [this.1]
        · simp only [List.dropLast_concat, hsc]
          cases hb : below.reverse with
          | nil => rw [hsc, hb] at h2; simp at h2
          | cons x y =>
            have := setTop_frame (x :: y) (by simp) name v
            rw [this.2]
  | err c m => exact PropFrame.refl st
  | panic x => exact PropFrame.refl st
  | hang x => exact PropFrame.refl st
  | fuel => exact PropFrame.refl st

mutual
theorem propagateNode_frame (cfg : ReflectCfg) (s : Stack) (n : Node) (h2 : 2 ≤ s.scopes.length) : PropFrame s (propagateNode cfg s n) :=
  match n with
  | .text _ => PropFrame.refl s
  | .comment _ => PropFrame.refl s
  | .doctype _ => PropFrame.refl s
  | .elem tag attrs kids => by
    simp only [propagateNode]
    have hfold : ∀ (as : List Attr) (s0 : Stack), 2 ≤ s0.scopes.length →
        PropFrame s0 (as.foldl (fun (st : Stack) (a : Attr) =>
          match isBoundKey a.1 with
          | some name =>
            (match st.lookup cfg name with
             | .ok (some v) =>
               (match st.scopes.reverse with
                | top :: below => { st with scopes := (Stack.setTop below.reverse name v) ++ [top] }
                | [] => st)
             | _ => st)
          | none => st) s0) := by
      intro as
      induction as with
      | nil => intro s0 _; exact PropFrame.refl s0
      | cons a r ih =>
        intro s0 h0
        simp only [List.foldl_cons]
        have step : PropFrame s0 (match isBoundKey a.1 with
          | some name =>
            (match s0.lookup cfg name with
             | .ok (some v) =>
               (match s0.scopes.reverse with
                | top :: below => { s0 with scopes := (Stack.setTop below.reverse name v) ++ [top] }
                | [] => s0)
             | _ => s0)
          | none => s0) := by
          cases isBoundKey a.1 with
          | none => exact PropFrame.refl s0
          | some name => exact propagate_one cfg s0 name h0
        exact PropFrame.trans step (ih _ (by rw [step.1]; exact h0))
    split
    · have hf := hfold attrs s h2
      exact PropFrame.trans hf (propagateList_frame cfg _ kids (by rw [hf.1]; exact h2))
    · exact propagateList_frame cfg _ kids h2
theorem propagateList_frame (cfg : ReflectCfg) (s : Stack) (ns : List Node) (h2 : 2 ≤ s.scopes.length) : PropFrame s (propagateList cfg s ns) :=
  match ns with
  | [] => PropFrame.refl s
  | n :: r => by
    simp only [propagateList]
    have h1 := propagateNode_frame cfg s n h2
    exact PropFrame.trans h1 (propagateList_frame cfg _ r (by rw [h1.1]; exact h2))
end

/-- a frame over a pushed stack, then propagation, then pop: a frame over the original stack -/
theorem pop_of_frame_push_prop (s t u : Stack) (m : Scope) (hs : s.scopes ≠ [])
    (h : StackFrame (s.push m) t) (hp : PropFrame t u) : StackFrame s u.pop := by
  obtain ⟨hl, hd, hr⟩ := h
  obtain ⟨pl, pd, pr⟩ := hp
  simp only [Stack.push, List.length_append, List.length_singleton, List.dropLast_concat] at hl hd hr
  have hul : u.scopes.length = s.scopes.length + 1 := by omega
  have hune : u.scopes ≠ [] := by intro e; rw [e] at hul; simp at hul
  obtain ⟨pre, last, hu⟩ : ∃ pre last, u.scopes = pre ++ [last] := ⟨u.scopes.dropLast, u.scopes.getLast hune, (List.dropLast_concat_getLast hune).symm⟩
  have hpre : pre.length = s.scopes.length := by rw [hu] at hul; simpa using hul
  have hprene : pre ≠ [] := by
    intro e; rw [e] at hpre
    exact hs (List.eq_nil_of_length_eq_zero hpre.symm)
  have hpop : u.pop = { scopes := pre, root := u.root } := by
    cases u with
    | mk us ur =>
      simp only at hu
      subst hu
      exact Stack.pop_concat pre last ur hprene
  rw [hpop]
  refine ⟨hpre, ?_, by simp [pr, hr]⟩
  simp only
  rw [hu, hd] at pd
  simpa using pd

end Vuego
